/* Contracts for JitAllocatorImpl_insertBlock / JitAllocatorImpl_removeBlock (property C09: "pool and global accounting": block lists,
 * cursor, area totals): a block enters / leaves exactly once - address tree, the pool's list (in order), the totals move by exactly
 * the block's area size, used area and bookkeeping overhead - and the pool's cursor never designates a block that is not in the list.
 * Modular: ArenaList::unlink / _add_node are REPLACED by their contracts (units c18.list.*); ArenaTree::insert/remove by ASSUMED
 * contracts that record the call. Pools of 0..3 blocks. */
#include "contracts/c18_list.h"
#if defined(HAVE_STRUCT_JitAllocatorPrivateImpl) && defined(HAVE_STRUCT_JitAllocatorPool)
struct JitAllocatorPool* g_pool; struct JitAllocatorPool g_pl0; LN* g_cursor0; unsigned g_tree_ins, g_tree_rem; void* g_tree_arg;
uint32_t g_asz, g_aus, g_bfl;                  /* ghost: area size / used area / flags of the block operated on */
#undef VERIF_GHOST_INIT
#define VERIF_GHOST_INIT() (__CPROVER_havoc_object(g_n), g_cnt = nondet_unsigned(), g_k = nondet_unsigned(), __CPROVER_havoc_object(&g_pool), __CPROVER_havoc_object(&g_pl0), \
   __CPROVER_havoc_object(&g_cursor0), g_tree_ins = 0, g_tree_rem = 0, g_tree_arg = NULL, g_asz = nondet_unsigned(), g_aus = nondet_unsigned(), g_bfl = nondet_unsigned())
#define CONTRACT_ArenaTree_JitAllocatorBlock_insert_Support_Compare_Support_SortOrder_kAscending \
  __CPROVER_requires(node != NULL) __CPROVER_assigns(g_tree_ins, g_tree_arg, node->__b0) \
  __CPROVER_ensures(g_tree_ins == __CPROVER_old(g_tree_ins) + 1 && g_tree_arg == (void*)node)
#define CONTRACT_ArenaTree_JitAllocatorBlock_remove_Support_Compare_Support_SortOrder_kAscending \
  __CPROVER_requires(node != NULL) __CPROVER_assigns(g_tree_rem, g_tree_arg) \
  __CPROVER_ensures(g_tree_rem == __CPROVER_old(g_tree_rem) + 1 && g_tree_arg == (void*)node)
#define F_LARGE_PAGES 16u
static inline uint64_t c_overhead(uint32_t area_size) { return sizeof(LN) + (uint64_t)(((area_size + 63u) / 64u) * 8u) * 2u; }
static inline _Bool c_pool_snap(const struct JitAllocatorPool* p) {
  return p->block_count == g_pl0.block_count && p->total_area_size[0] == g_pl0.total_area_size[0] && p->total_area_size[1] == g_pl0.total_area_size[1] &&
         p->total_area_used[0] == g_pl0.total_area_used[0] && p->total_area_used[1] == g_pl0.total_area_used[1] && p->total_overhead_bytes == g_pl0.total_overhead_bytes &&
         p->cursor == g_cursor0 && p->granularity == g_pl0.granularity && p->empty_block_count == g_pl0.empty_block_count;
}
/* the totals moved by exactly this block (sign +1 / -1) */
static inline int c_totals(const struct JitAllocatorPool* p, _Bool add) {
  unsigned li = (g_bfl & F_LARGE_PAGES) ? 1 : 0;
  uint64_t ov = c_overhead(g_asz);
  if (add) {
    if (p->block_count != g_pl0.block_count + 1) return 1;
    if (p->total_area_size[li] != g_pl0.total_area_size[li] + g_asz || p->total_area_used[li] != g_pl0.total_area_used[li] + g_aus) return 2;
    if (p->total_overhead_bytes != g_pl0.total_overhead_bytes + ov) return 4;
  } else {
    if (p->block_count != g_pl0.block_count - 1) return 1;
    if (p->total_area_size[li] != g_pl0.total_area_size[li] - g_asz || p->total_area_used[li] != g_pl0.total_area_used[li] - g_aus) return 2;
    if (p->total_overhead_bytes != g_pl0.total_overhead_bytes - ov) return 4;
  }
  if (p->total_area_size[1 - li] != g_pl0.total_area_size[1 - li] || p->total_area_used[1 - li] != g_pl0.total_area_used[1 - li]) return 3;
  return (p->granularity == g_pl0.granularity && p->empty_block_count == g_pl0.empty_block_count) ? 0 : 5;
}
#define POOL_PRE(impl) \
  __CPROVER_requires(__CPROVER_is_fresh(impl, sizeof(*impl))) \
  __CPROVER_requires(__CPROVER_is_fresh(g_pool, sizeof(struct JitAllocatorPool))) \
  LIST_SHAPE(g_pool->blocks) \
  __CPROVER_requires(g_cnt < 1 || PINL(g_n[0]->_pool, g_pool)) __CPROVER_requires(g_cnt < 2 || PINL(g_n[1]->_pool, g_pool)) __CPROVER_requires(g_cnt < 3 || PINL(g_n[2]->_pool, g_pool)) \
  __CPROVER_requires(g_cnt == 0 ? g_pool->cursor == NULL : (g_cursor0 == g_n[0] || (g_cnt >= 2 && g_cursor0 == g_n[1]) || (g_cnt >= 3 && g_cursor0 == g_n[2])))   /* the cursor designates a block of the list */ \
  __CPROVER_requires(c_pool_snap(g_pool) && g_pl0.block_count >= g_cnt && g_pl0.block_count < 1000000u)
#define POOL_ASSIGNS \
  __CPROVER_assigns(g_pool->cursor, g_pool->block_count, g_pool->total_area_size[0], g_pool->total_area_size[1], g_pool->total_area_used[0], g_pool->total_area_used[1], g_pool->total_overhead_bytes, \
                    g_pool->blocks._nodes[0], g_pool->blocks._nodes[1], g_tree_ins, g_tree_rem, g_tree_arg) \
  __CPROVER_assigns(g_cnt >= 1: g_n[0]->__b1) __CPROVER_assigns(g_cnt >= 2: g_n[1]->__b1) __CPROVER_assigns(g_cnt >= 3: g_n[2]->__b1)

static inline int c_remove_post(LN* block) {
  LN* rest[3]; unsigned m = 0;
  for (unsigned i = 0; i < 3; i++) if (i < g_cnt && i != g_k) rest[m++] = g_n[i];
  int c = c_list_is(&g_pool->blocks, rest, m);
  if (c) return 10 + c;                                                     /* B1 the others stay listed, in order */
  if (g_tree_rem != 1 || g_tree_ins != 0 || g_tree_arg != (void*)block) return 20;     /* B2 removed from the address tree once */
  c = c_totals(g_pool, 0);
  if (c) return 30 + c;                                                     /* B3 totals */
  /* B4 the cursor designates a block that is still in the list (or nothing when the list is empty); it moves only if it designated this block */
  LN* cur = g_pool->cursor;
  if (cur == block) return 40;
  if (m == 0) return cur == NULL ? 0 : 41;
  if (g_cursor0 != block) return cur == g_cursor0 ? 0 : 42;
  return (cur == rest[0] || (m >= 2 && cur == rest[1])) ? 0 : 43;
}
#define CONTRACT_JitAllocatorImpl_removeBlock \
  POOL_PRE(impl) \
  __CPROVER_requires(g_k < g_cnt && (g_k == 0 ? PINL(block, g_n[0]) : g_k == 1 ? PINL(block, g_n[1]) : PINL(block, g_n[2]))) \
  __CPROVER_requires(block->_area_size == g_asz && block->_area_used == g_aus && block->_flags == g_bfl && g_asz <= (1u << 24) && g_aus <= g_asz) \
  __CPROVER_requires(g_pl0.total_area_size[(g_bfl & F_LARGE_PAGES) ? 1 : 0] >= g_asz && g_pl0.total_area_used[(g_bfl & F_LARGE_PAGES) ? 1 : 0] >= g_aus && g_pl0.total_overhead_bytes >= c_overhead(g_asz) && g_pl0.block_count >= 1) \
  POOL_ASSIGNS \
  __CPROVER_ensures(c_remove_post(block) == 0)

static inline int c_insert_post(LN* block) {
  LN* all[4]; unsigned m = 0;
  for (unsigned i = 0; i < 3; i++) if (i < g_cnt) all[m++] = g_n[i];
  all[m++] = block;
  int c = c_list_is(&g_pool->blocks, all, m);
  if (c) return 10 + c;                                                     /* A1 appended, the others in order */
  if (g_tree_ins != 1 || g_tree_rem != 0 || g_tree_arg != (void*)block) return 20;     /* A2 entered into the address tree once */
  c = c_totals(g_pool, 1);
  if (c) return 30 + c;
  return g_pool->cursor == (g_cnt == 0 ? block : g_cursor0) ? 0 : 40;     /* A3 an empty pool's cursor starts at the new block */
}
#define CONTRACT_JitAllocatorImpl_insertBlock \
  POOL_PRE(impl) \
  __CPROVER_requires(__CPROVER_is_fresh(block, sizeof(LN)) && PINL(block->_pool, g_pool) && PREV(block) == NULL && NEXT(block) == NULL) \
  __CPROVER_requires(block->_area_size == g_asz && block->_area_used == g_aus && block->_flags == g_bfl && g_asz <= (1u << 24) && g_aus <= g_asz) \
  __CPROVER_requires(g_pl0.total_area_size[0] < ((uint64_t)1 << 48) && g_pl0.total_area_size[1] < ((uint64_t)1 << 48) && g_pl0.total_area_used[0] < ((uint64_t)1 << 48) && g_pl0.total_area_used[1] < ((uint64_t)1 << 48) && g_pl0.total_overhead_bytes < ((uint64_t)1 << 48)) \
  POOL_ASSIGNS \
  __CPROVER_assigns(block->__b0, block->__b1) \
  __CPROVER_ensures(c_insert_post(block) == 0)
#endif
