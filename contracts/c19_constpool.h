/* Contract for ConstPool::add (property C19, also C15): offsets are aligned to the constant's size, lie inside the pool, never move,
 * equal constants share one offset; invalid sizes are rejected without change; allocation failure yields kOutOfMemory, never a NULL
 * dereference. The red-black trees are abstracted by contracts on Tree::get/insert/new_node_t (assumed, see evidence); the arena by
 * "NULL or fresh". Gap lists bounded: at most one gap per size class on entry (quick), the gap pool holds at most one spare record. */
#include "spec/specdefs.h"
#include "spec/errors.h"
#if defined(HAVE_STRUCT_ConstPool) && defined(HAVE_STRUCT_ConstPool_Gap) && defined(HAVE_STRUCT_ConstPool_Node)
#ifndef VERIF_MAXCONST
#define VERIF_MAXCONST 64     /* largest constant size explored (quick tier: 16, which still exercises the shared sub-constant loop) */
#endif
struct ConstPool_Node* g_hit;            /* ghost: the node Tree::get may find (inserted earlier, so it satisfies the pool invariant) */
struct ConstPool_Gap* g_gap[7];          /* ghost: the gap (if any) at the head of each size class on entry */
uint64_t g_size0, g_align0, g_gapoff[7]; uint8_t g_hasgap[7];
uint64_t g_req_size;                     /* ghost: the size of the current request (binds the tree contracts to the call) */
#define VERIF_GHOST_INIT() (g_gapcnt = 0, g_nodecnt = 0, __CPROVER_havoc_object(&g_hit), __CPROVER_havoc_object(g_gap), __CPROVER_havoc_object(&g_size0), __CPROVER_havoc_object(&g_align0), \
   __CPROVER_havoc_object(g_gapoff), __CPROVER_havoc_object(g_hasgap), __CPROVER_havoc_object(&g_req_size))

/* ---- assumed contracts of the callees that are not lowered here -------------------------------------------------- */
#define CONTRACT_ConstPool_Tree_get \
  __CPROVER_requires(data != NULL) \
  __CPROVER_assigns() \
  /* pointer_in_range gives the returned pointer its object (CBMC resolves dereferences by value sets, not by equalities) */ \
  __CPROVER_ensures(__CPROVER_return_value == NULL || (__CPROVER_pointer_in_range_dfcc(g_hit, __CPROVER_return_value, g_hit) && self->_data_size == g_req_size))
#define CONTRACT_ConstPool_Tree_insert \
  __CPROVER_requires(node != NULL)   /* the tree links the node in: inserting NULL dereferences it */ \
  __CPROVER_assigns(self->_size, __CPROVER_object_whole(node)) \
  __CPROVER_ensures(self->_size == __CPROVER_old(self->_size) + 1)
/* allocators hand out distinct records of two ghost pools (one object each instead of one object per call: CBMC's object table is small) */
#define GAPPOOL_N 24
#define NODEPOOL_N 20
struct c_node_slot { struct ConstPool_Node n; uint8_t data[64]; };
struct ConstPool_Gap g_gappool[GAPPOOL_N]; unsigned g_gapcnt;
struct c_node_slot g_nodepool[NODEPOOL_N]; unsigned g_nodecnt;
#define CONTRACT_ConstPool_Tree_new_node_t \
  __CPROVER_requires(data != NULL && size >= 1 && size <= 64 && g_nodecnt < NODEPOOL_N) \
  __CPROVER_assigns(g_nodecnt, g_nodepool[g_nodecnt]) \
  __CPROVER_ensures(__CPROVER_return_value == NULL ? g_nodecnt == __CPROVER_old(g_nodecnt) : \
     (g_nodecnt == __CPROVER_old(g_nodecnt) + 1 && __CPROVER_pointer_in_range_dfcc(&g_nodepool[0].n, __CPROVER_return_value, &g_nodepool[NODEPOOL_N - 1].n) && \
      __CPROVER_return_value == &g_nodepool[__CPROVER_old(g_nodecnt)].n && \
      __CPROVER_return_value->_offset == (uint32_t)offset && __CPROVER_return_value->_shared == shared))
#define CONTRACT_Arena_alloc_oneshot_ConstPool_Gap_ \
  __CPROVER_requires(g_gapcnt < GAPPOOL_N) \
  __CPROVER_assigns(g_gapcnt) \
  __CPROVER_ensures(__CPROVER_return_value == NULL ? g_gapcnt == __CPROVER_old(g_gapcnt) : \
     (g_gapcnt == __CPROVER_old(g_gapcnt) + 1 && __CPROVER_pointer_in_range_dfcc(&g_gappool[0], __CPROVER_return_value, &g_gappool[GAPPOOL_N - 1]) && \
      __CPROVER_return_value == &g_gappool[__CPROVER_old(g_gapcnt)]))

/* ---- pool invariant (entry) --------------------------------------------------------------------------------------- */
#define GAP_PRE(self, i) \
  __CPROVER_requires(self->_gaps[i] == NULL || __CPROVER_is_fresh(self->_gaps[i], sizeof(struct ConstPool_Gap)))
static inline _Bool c_pool_pre(const struct ConstPool* p) {
  if (p->_size > ((uint64_t)1 << 30) || g_size0 != p->_size || g_align0 != p->_alignment) return 0;
  for (unsigned i = 0; i < 7; i++) {
    const struct ConstPool_Gap* g = p->_gaps[i];
    if (g_gap[i] != g || g_hasgap[i] != (g != NULL)) return 0;
    if (g) {   /* a gap of class i is 2^i bytes, aligned to its size, inside the pool; one gap per class in this harness */
      if (g->_next != NULL || g->_size != ((uint64_t)1 << i) || (g->_offset & (g->_size - 1)) != 0 || g->_offset > p->_size || g->_size > p->_size - g->_offset) return 0;
      if (g_gapoff[i] != g->_offset) return 0;
    }
    if (p->_tree[i]._data_size != ((uint64_t)1 << i)) return 0;
  }
  return 1;
}
static inline _Bool c_hit_ok(const struct ConstPool* p, uint64_t size) {   /* a node found by get() was placed by an earlier add() of this size */
  return ((uint64_t)g_hit->_offset & (size - 1)) == 0 && g_hit->_offset <= p->_size && size <= p->_size - g_hit->_offset;
}
static inline _Bool c_size_valid(uint64_t size) { return size >= 1 && size <= 64 && (size & (size - 1)) == 0; }
static inline unsigned c_log2(uint64_t size) { unsigned i = 0; for (unsigned k = 0; k < 7; k++) if (((uint64_t)1 << k) == size) i = k; return i; }

static inline int c_add_post(const struct ConstPool* p, uint64_t size, uint64_t off, uint32_t ret) {
  if (!c_size_valid(size)) {                                   /* P1 invalid size: rejected, nothing changes */
    if (ret != E_INVALID_ARGUMENT) return 1;
    if (p->_size != g_size0 || p->_alignment != g_align0) return 2;
    for (unsigned i = 0; i < 7; i++) if (p->_gaps[i] != g_gap[i]) return 2;
    return 0;
  }
  if (ret != E_OK && ret != E_OOM) return 3;
  if (p->_size < g_size0) return 4;                            /* P2 the pool only grows */
  if (ret == E_OK) {
    if ((off & (size - 1)) != 0) return 5;                     /* P3 aligned to the constant's size */
    if (off > p->_size || size > p->_size - off) return 6;     /* P4 inside the pool */
    if (p->_alignment < size || p->_alignment < g_align0) return 7;   /* P5 pool alignment covers every constant added */
    /* P6 a new slot is either a gap that was free or lies beyond everything handed out before; a dedup hit returns the old offset */
    unsigned cls = c_log2(size);
    _Bool from_gap = 0;                                       /* inside some gap that was free on entry (its own class or a larger one) */
    for (unsigned i = 0; i < 7; i++) if (i >= cls && g_hasgap[i] && off >= g_gapoff[i] && off - g_gapoff[i] <= ((uint64_t)1 << i) - size) from_gap = 1;
    _Bool hit = off == g_hit->_offset && p->_size == g_size0;
    if (!(from_gap || off >= g_size0 || hit)) return 8;
    /* P7 what remains registered as free space is well-formed and does not overlap the slot just handed out */
    if (!hit) for (unsigned i = 0; i < 7; i++) {
      const struct ConstPool_Gap* g = p->_gaps[i];
      for (unsigned k = 0; k < 4; k++) {
        if (g == NULL) break;
        if (g->_size != ((uint64_t)1 << i) || (g->_offset & (g->_size - 1)) != 0 || g->_offset > p->_size || g->_size > p->_size - g->_offset) return 9;
        if (!(g->_offset + g->_size <= off || off + size <= g->_offset)) return 10;
        g = g->_next;
      }
    }
  }
  return 0;
}
#define CONTRACT_ConstPool_add \
  __CPROVER_requires(__CPROVER_is_fresh(self, sizeof(*self))) \
  __CPROVER_requires(__CPROVER_is_fresh(self->_arena, 128))   /* opaque here: only passed to the allocator contracts */ \
  __CPROVER_requires(__CPROVER_is_fresh(data, 64)) \
  __CPROVER_requires(__CPROVER_is_fresh(offset_out._val, sizeof(uint64_t))) \
  __CPROVER_requires(__CPROVER_is_fresh(g_hit, sizeof(struct ConstPool_Node) + 64)) \
  GAP_PRE(self, 0) GAP_PRE(self, 1) GAP_PRE(self, 2) GAP_PRE(self, 3) GAP_PRE(self, 4) GAP_PRE(self, 5) GAP_PRE(self, 6) \
  __CPROVER_requires(self->_gap_pool == NULL || __CPROVER_is_fresh(self->_gap_pool, sizeof(struct ConstPool_Gap))) \
  __CPROVER_requires(self->_gap_pool == NULL || self->_gap_pool->_next == NULL) \
  __CPROVER_requires(g_gapcnt == 0 && g_nodecnt == 0) \
  __CPROVER_requires(c_pool_pre(self) && g_req_size == size && (!c_size_valid(size) || c_hit_ok(self, size))) \
  __CPROVER_requires(size <= VERIF_MAXCONST || size > 64) \
  __CPROVER_assigns(*self, *offset_out._val, g_gapcnt, g_nodecnt, __CPROVER_object_whole(g_gappool), __CPROVER_object_whole(g_nodepool)) \
  __CPROVER_assigns(self->_gaps[0] != NULL: __CPROVER_object_whole(self->_gaps[0])) __CPROVER_assigns(self->_gaps[1] != NULL: __CPROVER_object_whole(self->_gaps[1])) \
  __CPROVER_assigns(self->_gaps[2] != NULL: __CPROVER_object_whole(self->_gaps[2])) __CPROVER_assigns(self->_gaps[3] != NULL: __CPROVER_object_whole(self->_gaps[3])) \
  __CPROVER_assigns(self->_gaps[4] != NULL: __CPROVER_object_whole(self->_gaps[4])) __CPROVER_assigns(self->_gaps[5] != NULL: __CPROVER_object_whole(self->_gaps[5])) \
  __CPROVER_assigns(self->_gaps[6] != NULL: __CPROVER_object_whole(self->_gaps[6])) \
  __CPROVER_assigns(self->_gap_pool != NULL: __CPROVER_object_whole(self->_gap_pool)) \
  __CPROVER_ensures(c_add_post(self, size, *offset_out._val, __CPROVER_return_value) == 0)
#endif

#ifdef HAVE_STRUCT_ConstPool
/* ConstPool::reset (property C16): whatever the pool held, the state afterwards is the state of a freshly constructed pool */
static inline int c_pool_is_fresh(const struct ConstPool* p) {
  for (unsigned i = 0; i < 7; i++) {
    if (p->_tree[i]._tree._root != NULL || p->_tree[i]._size != 0) return 1;
    if (p->_tree[i]._data_size != ((uint64_t)1 << i)) return 2;
    if (p->_gaps[i] != NULL) return 3;
  }
  return (p->_gap_pool == NULL && p->_size == 0 && p->_alignment == 0 && p->_min_item_size == 0) ? 0 : 4;
}
#define CONTRACT_ConstPool_reset \
  __CPROVER_requires(__CPROVER_is_fresh(self, sizeof(*self))) \
  __CPROVER_assigns(*self) \
  __CPROVER_ensures(c_pool_is_fresh(self) == 0) \
  __CPROVER_ensures(self->_arena == __CPROVER_old(self->_arena))
#endif
