/* Contract for ConstPool::add (property C19, also C15/C14): offsets are aligned to the constant's size, lie inside the pool, never
 * move, equal constants share one offset; a new slot comes out of space that was free (a registered gap, or the tail of the pool) and
 * everything that stays registered as free afterwards is well-formed and disjoint from it; invalid sizes are rejected without change;
 * allocation failure yields kOutOfMemory, never a NULL dereference.
 *
 * Shape of the pre-state (built by harness/c19_add.c so that symbolic execution sees constant shapes): every size class holds 0, 1 or
 * 2 registered gaps (offsets symbolic, pairwise disjoint, inside the pool), the record pool holds 0 or 1 spare record, pool size
 * <= 2^30. One unit per constant size (VERIF_CONSTSIZE); sizes that are not a power of two <= 64 are one more unit (size symbolic).
 * The red-black trees and the arena are abstracted by ASSUMED stubs (below). */
#include "spec/specdefs.h"
#include "spec/errors.h"
#if defined(HAVE_STRUCT_ConstPool) && defined(HAVE_STRUCT_ConstPool_Gap) && defined(HAVE_STRUCT_ConstPool_Node)
#define NCLS 7
#ifndef NPER
#define NPER 2           /* registered gaps per size class on entry (quick tier: 1) */
#endif
#ifndef VERIF_NATIVE_REPLAY
struct c_node_slot { struct ConstPool_Node n; uint8_t data[64]; };
/* harness objects */
struct ConstPool g_pool; struct ConstPool_Gap g_G[NCLS][NPER]; struct ConstPool_Gap g_spare; uint8_t g_data[64]; uint64_t g_out; uint8_t g_arena_obj[128];
struct c_node_slot g_hitobj;
#endif
/* ghost: the nondeterministic choices of the assumed callee models, fixed before the call so that a counterexample names them:
 * allocation call j (nodes and gap records, in call order) fails iff bit j of g_fail_mask; lookup call j hits iff bit j of g_hit_mask */
uint64_t g_fail_mask, g_hit_mask; uint32_t g_alloc_calls, g_get_calls;
/* ghost snapshot of the entry state */
uint8_t g_n[NCLS]; uint64_t g_goff[NCLS][NPER]; uint64_t g_size0, g_align0; struct ConstPool_Gap* g_head0[NCLS]; uint64_t g_req_size; uint8_t g_has_spare;
#define VERIF_GHOST_INIT() ((void)0)

/* ---- ASSUMED models of the callees that are not lowered here (defined in harness/c19_add.c as small C stubs rather than as
 *      replaced contracts: dfcc instantiates a write set per replaced call, which exhausted CBMC's object table) ------------
 *   Tree::get          NULL, or the node g_hitobj (placed by an earlier add of this size)
 *   Tree::insert       requires node != NULL (the tree links the node in); counts the node
 *   Tree::new_node_t   NULL, or a fresh node record carrying (offset, shared)
 *   Arena::alloc_oneshot<Gap>   NULL, or a fresh gap record                                                                */
static inline _Bool c_size_valid(uint64_t size) { return size >= 1 && size <= 64 && (size & (size - 1)) == 0; }
static inline unsigned c_log2(uint64_t size) { unsigned i = 0; for (unsigned k = 0; k < 7; k++) if (((uint64_t)1 << k) == size) i = k; return i; }

static inline int c_add_post(const struct ConstPool* p, uint64_t size, uint64_t off, uint32_t ret) {
  if (!c_size_valid(size)) {                                   /* P1 invalid size: rejected, nothing changes */
    if (ret != E_INVALID_ARGUMENT) return 1;
    if (p->_size != g_size0 || p->_alignment != g_align0) return 2;
    for (unsigned i = 0; i < NCLS; i++) if (p->_gaps[i] != g_head0[i]) return 2;
    return 0;
  }
  if (ret != E_OK && ret != E_OOM) return 3;
  if (p->_size < g_size0) return 4;                            /* P2 the pool only grows */
  if (ret == E_OK) {
    if ((off & (size - 1)) != 0) return 5;                     /* P3 aligned to the constant's size */
    if (off > p->_size || size > p->_size - off) return 6;     /* P4 inside the pool */
    if (p->_alignment < size || p->_alignment < g_align0) return 7;   /* P5 pool alignment covers every constant added */
    /* P6 a new slot is either inside a gap that was registered as free or lies beyond everything handed out before; a dedup hit returns the old offset */
    unsigned cls = c_log2(size);
    _Bool from_gap = 0;
    for (unsigned i = 0; i < NCLS; i++) for (unsigned k = 0; k < NPER; k++)
      if (i >= cls && k < g_n[i] && off >= g_goff[i][k] && off - g_goff[i][k] <= ((uint64_t)1 << i) - size) from_gap = 1;
    _Bool hit = off == g_hitobj.n._offset && p->_size == g_size0;
    if (!(from_gap || off >= g_size0 || hit)) return 8;
    if (from_gap && !hit && p->_size != g_size0) return 11;    /* reusing a gap does not grow the pool */
    /* P7 what remains registered as free space is well-formed and does not overlap the slot just handed out */
    if (!hit) for (unsigned i = 0; i < NCLS; i++) {
      const struct ConstPool_Gap* g = p->_gaps[i];
      for (unsigned k = 0; k <= NPER + 3; k++) {
        if (g == NULL) break;
        if (k == NPER + 3) return 12;                           /* longer than anything one add() can build from <= NPER gaps: not expected */
        if (g->_size != ((uint64_t)1 << i) || (g->_offset & (g->_size - 1)) != 0 || g->_offset > p->_size || g->_size > p->_size - g->_offset) return 9;
        if (!(g->_offset + g->_size <= off || off + size <= g->_offset)) return 10;
        g = g->_next;
      }
    }
  }
  return 0;
}
/* This unit runs without goto-instrument's contract instrumentation (Unit(dfcc=False)): harness/c19_add.c establishes the
 * precondition and asserts c_add_post itself. Reason: the allocator models create many heap objects and dfcc's write-set loops need
 * an unwinding bound per object; the same obligations without the frame check cost the same solver time. The frame (only the pool,
 * its gap records and *offset_out are written) is therefore NOT checked for ConstPool::add. */
#ifdef VERIF_NO_DFCC
#define CONTRACT_ConstPool_add
#else
#define CONTRACT_ConstPool_add \
  __CPROVER_requires(self == &g_pool && data == (void*)g_data && offset_out._val == &g_out && g_req_size == size) \
  __CPROVER_assigns(*self, *offset_out._val, __CPROVER_object_whole(g_G), g_spare) \
  __CPROVER_ensures(c_add_post(self, size, *offset_out._val, __CPROVER_return_value) == 0)
#endif
#endif

#ifdef HAVE_STRUCT_ConstPool
/* ConstPool::reset (property C16): whatever the pool held, the state afterwards is the state of a freshly constructed pool */
static inline int c_pool_is_fresh(const struct ConstPool* p) {
  for (unsigned i = 0; i < 7; i++) {
    if (p->_tree[i]._tree._root != NULL || p->_tree[i]._size != 0) return 1;
    if (p->_tree[i]._data_size != ((uint64_t)1 << i)) return 2;
    if (p->_gaps[i] != NULL) return 3;
  }
  return (p->_gap_pool == NULL && p->_size == 0 && p->_alignment == 0 && p->_min_item_size == 0) ? 0 : 4;
}
#define CONTRACT_ConstPool_reset \
  __CPROVER_requires(__CPROVER_is_fresh(self, sizeof(*self))) \
  __CPROVER_assigns(*self) \
  __CPROVER_ensures(c_pool_is_fresh(self) == 0) \
  __CPROVER_ensures(self->_arena == __CPROVER_old(self->_arena))
#endif
