/* Contracts for the calling-convention classification (property C06): init_call_conv produces the ABI's register/stack tables,
 * init_func_detail - given those tables - puts every argument where the ABI puts it. Modular: the CallConv record is the
 * interface between the two (predicate c_cc_is). x86-64 System V and Win64, AArch64 AAPCS64 and Apple. */
#include "spec/abi.h"
#ifdef HAVE_STRUCT_CallConv
#ifndef VERIF_ABI
#define VERIF_ABI 1
#endif
#ifndef VERIF_MAXARGS
#define VERIF_MAXARGS 32
#endif
unsigned g_arg;                       /* ghost witness argument index */
uint8_t g_types[32];                  /* ghost: the signature's argument types */
uint8_t g_nargs, g_ret;
#ifndef __cplusplus
unsigned nondet_unsigned(void);
#endif
#define VERIF_GHOST_INIT() (g_arg = nondet_unsigned(), __CPROVER_havoc_object(g_types), __CPROVER_havoc_object(&g_nargs), __CPROVER_havoc_object(&g_ret))
#define FV_IS_REG 0x100u
#define FV_IS_STACK 0x200u
#define FV_IS_INDIRECT 0x400u

/* ---- the CallConv record of each ABI (register numbers: hardware encodings) ------------------------------------ */
static inline _Bool c_order_is(const uint8_t* id, const uint8_t* want, unsigned n) {
  for (unsigned i = 0; i < 16; i++) if (id[i] != (i < n ? want[i] : 0xFF)) return 0;
  return 1;
}
static inline int c_cc_code(const struct CallConv* cc, int abi) {
  static const uint8_t sysv_gp[6] = {7, 6, 2, 1, 8, 9}, win_gp[4] = {1, 2, 8, 9}, seq[8] = {0, 1, 2, 3, 4, 5, 6, 7};
  const uint8_t* gp = cc->_passed_order._data[0].id; const uint8_t* vec = cc->_passed_order._data[1].id;
  switch (abi) {
    case SPEC_ABI_SYSV64:
      if ((unsigned)cc->_arch != 2 || (unsigned)cc->_strategy != 0 || cc->_spill_zone_size != 0 || cc->_red_zone_size != 128 || cc->_natural_stack_alignment != 16) return 1;
      if (!c_order_is(gp, sysv_gp, 6) || !c_order_is(vec, seq, 8)) return 2;
      if (!((unsigned)cc->_flags & 4u)) return 3;                                                     /* floats travel in XMM */
      if (cc->_preserved_regs._data[0] != 0xF038u || cc->_preserved_regs._data[1] != 0) return 4;    /* rbx rsp rbp r12-r15 */
      return 0;
    case SPEC_ABI_WIN64:
      if ((unsigned)cc->_arch != 2 || (unsigned)cc->_strategy != 1 || cc->_spill_zone_size != 32 || cc->_red_zone_size != 0 || cc->_natural_stack_alignment != 16) return 1;
      if (!c_order_is(gp, win_gp, 4) || !c_order_is(vec, seq, 4)) return 2;
      if (((unsigned)cc->_flags & 6u) != 6u) return 3;                                                /* floats in XMM, vectors by reference */
      if (cc->_preserved_regs._data[0] != 0xF0F8u || cc->_preserved_regs._data[1] != 0xFFC0u) return 4;  /* + rsi rdi, xmm6-15 */
      return 0;
    case SPEC_ABI_AAPCS64:
    case SPEC_ABI_APPLE64:
      if ((unsigned)cc->_arch != 6 || (unsigned)cc->_strategy != (abi == SPEC_ABI_APPLE64 ? 3u : 0u) || cc->_spill_zone_size != 0 || cc->_natural_stack_alignment != 16) return 1;
      if (!c_order_is(gp, seq, 8) || !c_order_is(vec, seq, 8)) return 2;
      if (cc->_preserved_regs._data[0] != 0x7FFC0000u || cc->_preserved_regs._data[1] != 0xFF00u) return 4;  /* x18-x30, v8-v15 */
      return 0;
    default: return 9;
  }
}
/* CallConv as CallConv::reset() leaves it */
static inline _Bool c_cc_reset_state(const struct CallConv* cc) {
  const uint8_t* p = (const uint8_t*)cc;
  for (unsigned i = 0; i < sizeof(struct CallConv); i++) {
    _Bool in_order = i >= __builtin_offsetof(struct CallConv, _passed_order);
    if (p[i] != (in_order ? 0xFF : 0)) return 0;
  }
  return 1;
}
#ifdef HAVE_STRUCT_Environment
/* ABI selected by (architecture, platform, call conv id) - the configurations covered */
static inline int c_abi_of(unsigned cc, const struct Environment* env) {
  _Bool win = (unsigned)env->_platform == 1 || (unsigned)env->_platform_abi == 1;
  if ((unsigned)env->_arch == 2) {
    if (cc == 32) return SPEC_ABI_SYSV64;
    if (cc == 33) return SPEC_ABI_WIN64;
    if (cc == 0 || cc == 1 || cc == 2 || cc == 4 || cc == 5 || cc == 6 || cc == 7) return win ? SPEC_ABI_WIN64 : SPEC_ABI_SYSV64;
    return 0;
  }
  if ((unsigned)env->_arch == 6) { if (cc <= 7) return (unsigned)env->_platform_abi == 5 ? SPEC_ABI_APPLE64 : SPEC_ABI_AAPCS64; return 0; }
  return 0;
}
#define CC_CONTRACT \
  __CPROVER_requires(__CPROVER_is_fresh(cc, sizeof(*cc))) \
  __CPROVER_requires(__CPROVER_is_fresh(environment, sizeof(*environment))) \
  __CPROVER_requires(c_cc_reset_state(cc) && c_abi_of(call_conv_id, environment) == VERIF_ABI) \
  __CPROVER_assigns(*cc) \
  __CPROVER_ensures(__CPROVER_return_value == 0) \
  __CPROVER_ensures(c_cc_code(cc, VERIF_ABI) == 0)
#define CONTRACT_x86_FuncInternal_init_call_conv CC_CONTRACT
#define CONTRACT_a64_FuncInternal_init_call_conv CC_CONTRACT
#endif

#ifdef HAVE_STRUCT_FuncDetail

/* ---- argument classification ------------------------------------------------------------------------------------ */
static inline _Bool c_types_ok(int abi) {
  if (g_nargs > VERIF_MAXARGS) return 0;
  if (!(g_ret == 0 || spec_type_class(g_ret) != SPEC_T_NONE)) return 0;
  if ((abi == SPEC_ABI_AAPCS64 || abi == SPEC_ABI_APPLE64) && spec_type_size(g_ret) > 16) return 0;
  for (unsigned i = 0; i < VERIF_MAXARGS; i++) {
    if (i >= g_nargs) break;
    unsigned t = g_types[i];
    if (spec_type_class(t) == SPEC_T_NONE) return 0;
    if ((abi == SPEC_ABI_AAPCS64 || abi == SPEC_ABI_APPLE64) && spec_type_size(t) > 16) return 0;   /* no 256/512-bit vectors on AArch64 */
    if ((abi == SPEC_ABI_SYSV64 || abi == SPEC_ABI_WIN64) && spec_type_class(t) == SPEC_T_VEC && spec_type_size(t) < 16) return 0;  /* 64-bit vectors = MMX: excluded */
  }
  return 1;
}
/* witness class of known finding KF-C06-1 (known_findings.txt): System V x86-64 signatures in which a vector argument (16/32/64
 * bytes) is passed on the stack, i.e. is preceded by >= 8 float/vector arguments. With -DVERIF_EXCL_SYSV_VEC_STACK the check is
 * repeated on the complement of this class, so any other deviation is still reported. */
static inline _Bool c_in_known_class_sysv_vec_stack(void) {
  unsigned nvec = 0;
  for (unsigned i = 0; i < VERIF_MAXARGS; i++) {
    if (i >= g_nargs) break;
    int c = spec_type_class(g_types[i]);
    if (c == SPEC_T_F32 || c == SPEC_T_F64 || c == SPEC_T_VEC) { if (nvec >= 8 && c == SPEC_T_VEC) return 1; nvec++; }
  }
  return 0;
}
#ifdef VERIF_EXCL_SYSV_VEC_STACK
#define C06_EXCLUDE_KNOWN (VERIF_ABI != SPEC_ABI_SYSV64 || !c_in_known_class_sysv_vec_stack())
#else
#define C06_EXCLUDE_KNOWN 1
#endif
/* FuncDetail as FuncDetail::init() hands it to the backend: calling convention initialised, argument/return types filled in */
static inline _Bool c_detail_prepared(const struct FuncDetail* d, int abi) {
  if (c_cc_code(&d->_call_conv, abi) != 0) return 0;
  if (d->_arg_count != g_nargs || d->_va_index != 255 || d->_arg_stack_size != 0) return 0;
  for (unsigned i = 0; i < VERIF_MAXARGS; i++) for (unsigned k = 0; k < 4; k++)
    if (d->_args[i]._values[k]._data != ((i < g_nargs && k == 0) ? g_types[i] : 0u)) return 0;
  for (unsigned k = 0; k < 4; k++) if (d->_rets._values[k]._data != (k == 0 ? g_ret : 0u) || d->_used_regs._data[k] != 0) return 0;
  return 1;
}
/* does the FuncValue `v` describe location `l`? returns 0 if yes, else a code */
static inline int c_loc_matches(uint32_t v, struct spec_loc l, unsigned type) {
  unsigned sz = spec_type_size(type);
  _Bool is_reg = (v & FV_IS_REG) != 0, is_stack = (v & FV_IS_STACK) != 0, indirect = (v & FV_IS_INDIRECT) != 0;
  unsigned reg_type = v >> 24, reg_id = (v >> 16) & 0xFF; uint32_t off = v >> 12;
  if (is_reg == is_stack) return 1;                                  /* exactly one of register / stack */
  switch (l.kind) {
    case SPEC_LOC_GP:
      if (!is_reg || indirect || reg_id != l.reg) return 2;
      if (reg_type != (sz <= 4 ? 5u : 6u)) return 3;                 /* Gp32 for <= 32-bit values, Gp64 otherwise */
      return 0;
    case SPEC_LOC_VEC:
      if (!is_reg || indirect || reg_id != l.reg) return 4;
      if (reg_type != (sz <= 4 ? 9u : sz == 8 ? 10u : sz == 16 ? 11u : sz == 32 ? 12u : 13u)) {
        if (!(reg_type == 11u && sz <= 8)) return 5;                 /* x86 passes scalar floats in XMM (Vec128) */
      }
      return 0;
    case SPEC_LOC_STACK:
      return (is_stack && !indirect && off == l.offset) ? 0 : 6;
    case SPEC_LOC_GP_INDIRECT:
      return (is_reg && indirect && reg_id == l.reg && reg_type == 6u) ? 0 : 7;
    case SPEC_LOC_STACK_INDIRECT:
      return (is_stack && indirect && off == l.offset) ? 0 : 8;
    default: return 9;
  }
}
static inline int c_arg_ok(const struct FuncDetail* self, int abi) {
  if (g_arg >= g_nargs) return 0;
  struct spec_args_result r = spec_arg_location(abi, g_types, g_nargs, g_arg);
  uint32_t v = self->_args[g_arg]._values[0]._data;
  if ((v & 0xFF) != g_types[g_arg]) return 20;                       /* the value keeps its type */
  if (self->_args[g_arg]._values[1]._data != 0) return 21;           /* 64-bit targets never split a value */
  int c = c_loc_matches(v, r.loc, g_types[g_arg]);
  return c ? c : (self->_arg_stack_size == r.stack_size ? 0 : 30);
}
#define FD_CONTRACT(EXTRA) \
  __CPROVER_requires(__CPROVER_is_fresh(func, sizeof(*func))) \
  __CPROVER_requires(c_types_ok(VERIF_ABI) && c_detail_prepared(func, VERIF_ABI) && C06_EXCLUDE_KNOWN) \
  EXTRA \
  __CPROVER_assigns(*func) \
  __CPROVER_ensures(__CPROVER_return_value == 0) \
  __CPROVER_ensures(func->_arg_count == g_nargs) \
  /* D1 the witness argument sits exactly where the ABI puts it, and the stack area has the ABI's size */ \
  __CPROVER_ensures(c_arg_ok(func, VERIF_ABI) == 0)
#define CONTRACT_x86_FuncInternal_init_func_detail FD_CONTRACT(__CPROVER_requires(register_size == 8) \
  __CPROVER_requires(__CPROVER_is_fresh(signature, sizeof(*signature)) && (unsigned)signature->_va_index == 255))
#define CONTRACT_a64_FuncInternal_init_func_detail FD_CONTRACT(/* the signature is not read by the AArch64 backend */)
#endif
#endif
