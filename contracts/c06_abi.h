/* Contract for FuncDetail::init (property C06, classification part): every argument is assigned the location the target ABI prescribes. */
#include "spec/abi.h"
#ifdef HAVE_STRUCT_FuncDetail
#ifndef VERIF_MAXARGS
#define VERIF_MAXARGS 32
#endif
unsigned g_arg;                       /* ghost witness argument index */
unsigned nondet_unsigned(void);
#define VERIF_GHOST_INIT() (g_arg = nondet_unsigned())
#define FV_IS_REG 0x100u
#define FV_IS_STACK 0x200u
#define FV_IS_INDIRECT 0x400u

/* ABI selected by (architecture, platform, call conv id) - the configurations this contract covers */
static inline int c_abi_of(const struct FuncSignature* sig, const struct Environment* env) {
  unsigned cc = sig->_call_conv_id;
  _Bool win = env->_platform == 1 || env->_platform_abi == 1;
  _Bool apple = env->_platform >= 10 && env->_platform <= 15;
  if (env->_arch == 2) {                                   /* x86-64 */
    if (cc == 32) return SPEC_ABI_SYSV64;
    if (cc == 33) return SPEC_ABI_WIN64;
    if (cc == 0 || cc == 1 || cc == 2 || cc == 4 || cc == 5 || cc == 6 || cc == 7) return win ? SPEC_ABI_WIN64 : SPEC_ABI_SYSV64;
    return 0;
  }
  if (env->_arch == 6) {                                   /* AArch64: every standard id is treated as the platform C convention */
    if (cc <= 7) return apple ? SPEC_ABI_APPLE64 : SPEC_ABI_AAPCS64;
    return 0;
  }
  return 0;
}
static inline _Bool c_sig_ok(const struct FuncSignature* sig, int abi) {
  if (sig->_arg_count > VERIF_MAXARGS || sig->_va_index != 255) return 0;
  if (!(sig->_ret == 0 || spec_type_class(sig->_ret) != SPEC_T_NONE)) return 0;
  if ((abi == SPEC_ABI_AAPCS64 || abi == SPEC_ABI_APPLE64) && spec_type_size(sig->_ret) > 16) return 0;
  for (unsigned i = 0; i < 32; i++) {
    if (i >= sig->_arg_count) break;
    unsigned t = sig->_args[i];
    if (spec_type_class(t) == SPEC_T_NONE) return 0;
    if ((abi == SPEC_ABI_AAPCS64 || abi == SPEC_ABI_APPLE64) && spec_type_size(t) > 16) return 0;   /* no 256/512-bit vectors on AArch64 */
    if ((abi == SPEC_ABI_SYSV64 || abi == SPEC_ABI_WIN64) && spec_type_class(t) == SPEC_T_VEC && spec_type_size(t) < 16) return 0;  /* 64-bit vectors = MMX: excluded */
  }
  return 1;
}
/* does the FuncValue `v` describe location `l`? returns 0 if yes, else a code */
static inline int c_loc_matches(uint32_t v, struct spec_loc l, unsigned type) {
  unsigned sz = spec_type_size(type);
  _Bool is_reg = (v & FV_IS_REG) != 0, is_stack = (v & FV_IS_STACK) != 0, indirect = (v & FV_IS_INDIRECT) != 0;
  unsigned reg_type = v >> 24, reg_id = (v >> 16) & 0xFF; uint32_t off = v >> 12;
  if (is_reg == is_stack) return 1;                                  /* exactly one of register / stack */
  switch (l.kind) {
    case SPEC_LOC_GP:
      if (!is_reg || indirect || reg_id != l.reg) return 2;
      if (reg_type != (sz <= 4 ? 5u : 6u)) return 3;                 /* Gp32 for <= 32-bit values, Gp64 otherwise */
      return 0;
    case SPEC_LOC_VEC:
      if (!is_reg || indirect || reg_id != l.reg) return 4;
      if (reg_type != (sz <= 4 ? 9u : sz == 8 ? 10u : sz == 16 ? 11u : sz == 32 ? 12u : 13u)) {
        /* x86 passes scalar floats in XMM (Vec128) */
        if (!(reg_type == 11u && sz <= 8)) return 5;
      }
      return 0;
    case SPEC_LOC_STACK:
      return (is_stack && !indirect && off == l.offset) ? 0 : 6;
    case SPEC_LOC_GP_INDIRECT:
      return (is_reg && indirect && reg_id == l.reg && reg_type == 6u) ? 0 : 7;
    case SPEC_LOC_STACK_INDIRECT:
      return (is_stack && indirect && off == l.offset) ? 0 : 8;
    default: return 9;
  }
}
static inline int c_arg_ok(const struct FuncDetail* self, const struct FuncSignature* sig, const struct Environment* env) {
  int abi = c_abi_of(sig, env);
  if (g_arg >= sig->_arg_count) return 0;
  struct spec_args_result r = spec_arg_location(abi, sig->_args, sig->_arg_count, g_arg);
  uint32_t v = self->_args[g_arg]._values[0]._data;
  if ((v & 0xFF) != sig->_args[g_arg]) return 20;                    /* the value keeps its type */
  if (self->_args[g_arg]._values[1]._data != 0) return 21;           /* 64-bit targets never split a value */
  int c = c_loc_matches(v, r.loc, sig->_args[g_arg]);
  return c ? c : (self->_arg_stack_size == r.stack_size ? 0 : 30);
}
#define CONTRACT_FuncDetail_init \
  __CPROVER_requires(__CPROVER_is_fresh(self, sizeof(*self))) \
  __CPROVER_requires(__CPROVER_is_fresh(signature, sizeof(*signature))) \
  __CPROVER_requires(__CPROVER_is_fresh(environment, sizeof(*environment))) \
  __CPROVER_requires(c_abi_of(signature, environment) != 0 && c_sig_ok(signature, c_abi_of(signature, environment))) \
  __CPROVER_requires(c_fresh_detail(self)) \
  __CPROVER_assigns(*self) \
  __CPROVER_ensures(__CPROVER_return_value == 0) \
  __CPROVER_ensures(self->_arg_count == signature->_arg_count) \
  /* D1 the witness argument sits exactly where the ABI puts it, and the stack area has the ABI's size */ \
  __CPROVER_ensures(c_arg_ok(self, signature, environment) == 0)
/* FuncDetail as constructed (FuncDetail() / reset(): all zero, va_index = none) */
static inline _Bool c_fresh_detail(const struct FuncDetail* d) {
  const uint8_t* p = (const uint8_t*)d;
  for (unsigned i = 0; i < sizeof(struct FuncDetail); i++) if (p[i] != 0 && i != __builtin_offsetof(struct FuncDetail, _va_index)) return 0;
  return 1;
}
#endif
