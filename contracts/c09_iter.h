/* Contracts for BitVectorRangeIterator<BitWord, 0> (property C09, "free-range search"): JitAllocator::alloc places a new span into a
 * range this iterator returns, so the range must consist of FREE granules only - every bit in [range_start, range_end) is zero in the
 * vector -, be non-empty and lie inside the search window. The iterator state satisfies an invariant (INV) which init() establishes
 * and every next_range() call re-establishes, so the statement holds for every call of any iteration (induction over the calls):
 *   the index is word-aligned; while candidate bits remain they belong to the word the pointer designates and every candidate is a
 *   zero bit of that word; when none remain and another word lies inside the window, the pointer designates the current word.
 * Caller obligation (what wf_block gives alloc(): every free granule lies inside the search window): no zero bit at or beyond `end`.
 * Vectors of VERIF_W words. */
#include "spec/bits.h"
#ifndef VERIF_W
#define VERIF_W 2
#endif
#ifdef HAVE_STRUCT_BitVectorRangeIterator_u64_0
#define IT struct BitVectorRangeIterator_u64_0
uint64_t* g_vec; size_t g_bit, g_word; uint64_t g_idx0, g_bw0;
size_t nondet_size_t(void);
#define VERIF_GHOST_INIT() (__CPROVER_havoc_object(&g_vec), g_bit = nondet_size_t(), g_word = nondet_size_t(), __CPROVER_havoc_object(&g_idx0), __CPROVER_havoc_object(&g_bw0))
/* mask of the bits of word w whose global position is >= pos */
static inline uint64_t c_mask_ge(size_t w, uint64_t pos) {
  if (pos <= 64 * w) return ~(uint64_t)0;
  if (pos >= 64 * w + 64) return 0;
  return ~(uint64_t)0 << (pos - 64 * w);
}
static inline _Bool c_no_free_beyond(const uint64_t* v, uint64_t end) {
  for (size_t w = 0; w < VERIF_W; w++) if ((~v[w] & c_mask_ge(w, end)) != 0) return 0;
  return 1;
}
static inline int c_iter_inv(const IT* it) {
  if (it->_idx % 64 != 0 || it->_idx > ((uint64_t)1 << 40) || it->_end > 64 * VERIF_W) return 1;   /* (the index keeps growing if an exhausted iterator is called again; the bound only excludes wrap-around) */
  if (it->_bit_word != 0) {
    if (!(it->_idx < it->_end)) return 2;
    if (!__CPROVER_same_object(it->_ptr, g_vec) || __CPROVER_POINTER_OFFSET(it->_ptr) != (it->_idx / 64) * 8) return 3;
    if ((it->_bit_word & g_vec[it->_idx / 64]) != 0) return 4;                    /* every candidate is a zero (free) bit */
  } else if (it->_idx + 64 < it->_end) {
    if (!__CPROVER_same_object(it->_ptr, g_vec) || __CPROVER_POINTER_OFFSET(it->_ptr) != (it->_idx / 64) * 8) return 5;
  }
  return 0;
}
static inline int c_next_range_post(const IT* it, _Bool ret, uint64_t s, uint64_t e) {
  int c = c_iter_inv(it);
  if (c) return c;                                                                 /* R0 invariant re-established */
  if (!ret) {                                                                      /* R1 exhausted: no candidate was left, no later word inside the window has a free bit */
    if (g_bw0 != 0) return 10;
    if (g_word < VERIF_W && g_word > g_idx0 / 64 && 64 * g_word < it->_end && ~g_vec[g_word] != 0) return 11;
    return 0;
  }
  if (!(s < e && e <= it->_end)) return 12;                                        /* R2 non-empty, inside the window */
  if (s < g_idx0) return 13;                                                       /* R3 progress */
  if (!spec_all_bits(g_vec, VERIF_W, s, e, 0)) return 14;                            /* R4 every granule of the range is free (word masks: usable by callers without a quantifier) */
  if (g_bit >= s && g_bit < e && spec_bit(g_vec, g_bit)) return 15;                /*    (the same, bit by bit for an arbitrary position) */
  return 0;
}
#define CONTRACT_BitVectorRangeIterator_u64_0_next_range \
  __CPROVER_requires(__CPROVER_is_fresh(self, sizeof(*self))) \
  __CPROVER_requires(__CPROVER_is_fresh(g_vec, VERIF_W * sizeof(uint64_t))) \
  __CPROVER_requires(__CPROVER_is_fresh(range_start._val, sizeof(uint64_t)) && __CPROVER_is_fresh(range_end._val, sizeof(uint64_t))) \
  __CPROVER_requires(__CPROVER_pointer_in_range_dfcc(g_vec, self->_ptr, g_vec + VERIF_W)) \
  __CPROVER_requires(c_iter_inv(self) == 0 && self->_idx < ((uint64_t)1 << 40) - 256 && c_no_free_beyond(g_vec, self->_end) && g_idx0 == self->_idx && g_bw0 == self->_bit_word) \
  __CPROVER_assigns(*self, *range_start._val, *range_end._val) \
  __CPROVER_ensures(self->_end == __CPROVER_old(self->_end)) \
  __CPROVER_ensures(c_next_range_post(self, __CPROVER_return_value, *range_start._val, *range_end._val) == 0)
/* init: the invariant holds, the candidates are exactly the free bits of the first word at or above `start` */
#define CONTRACT_BitVectorRangeIterator_u64_0_init__u64_p_u64_u64_u64 \
  __CPROVER_requires(__CPROVER_is_fresh(self, sizeof(*self))) \
  __CPROVER_requires(__CPROVER_is_fresh(g_vec, VERIF_W * sizeof(uint64_t)) && __CPROVER_pointer_in_range_dfcc(g_vec, data, g_vec)) \
  __CPROVER_requires(bit_word_count == VERIF_W && start <= end && end <= 64 * VERIF_W) \
  __CPROVER_assigns(*self) \
  __CPROVER_ensures(c_iter_inv(self) == 0 && self->_end == end && self->_idx == (start / 64) * 64) \
  __CPROVER_ensures(self->_idx >= end || self->_bit_word == (~g_vec[start / 64] & c_mask_ge(start / 64, start)))
#endif
