/* Contract for CodeHolder::relocate_to_base (property C04): every relocation entry patches its field with the value its type
 * prescribes for the chosen base address, entries that leave their section are rejected before any write, unrepresentable values are
 * errors. Bounds: <= 1 relocation entry (the witness), 2 sections with buffers of VERIF_BUF bytes, no address table section. */
#include "contracts/c17_offset.h"   /* write_offset is replaced by its contract (proved in unit c17.write_offset) */
#include "spec/errors.h"
#undef VERIF_GHOST_INIT
#ifdef HAVE_STRUCT_CodeHolder
#ifndef VERIF_BUF
#define VERIF_BUF 24
#endif
#define E_RELOC_OOR 24u      /* Error::kRelocOffsetOutOfRange */
struct RelocEntry g_re0;              /* ghost: the entry on entry */
uint64_t g_word0, g_base0;            /* ghost: placeholder word at the patched site, holder's base address on entry */
uint64_t g_off[2];                    /* ghost: section offsets */
uint64_t g_bsz[2];                    /* ghost: section buffer sizes */
#define VERIF_GHOST_INIT() (g_k = nondet_size_t(), __CPROVER_havoc_object(&g_re0), __CPROVER_havoc_object(&g_word0), __CPROVER_havoc_object(&g_base0), __CPROVER_havoc_object(g_off), __CPROVER_havoc_object(g_bsz))
#ifdef VERIF_NATIVE_REPLAY      /* compiled as C++ against the real classes: bases are inherited, enums are scoped */
#define SECS(self) ((self)->_sections)
#define RELS(self) ((self)->_relocations)
#define SBO(self) ((self)->_sections_by_order)
#else
#define SECS(self) ((self)->_sections.__b0)
#define RELS(self) ((self)->_relocations.__b0)
#define SBO(self) ((self)->_sections_by_order.__b0)
#endif
#define RT(re) ((unsigned)(re)->_reloc_type)
#define FT(f) ((unsigned)(f)->_type)
#define SECP(self, i) (((struct Section**)SECS(self)._data)[i])
#define REL(self, i) (((struct RelocEntry**)RELS(self)._data)[i])
#define FMT_WF_ANY(f) ((f)->_value_size == 8 ? (spec_format_wf(FT(f), 8, (f)->_imm_bit_count, (f)->_imm_bit_shift, (f)->_imm_discard_lsb, 64) && FT(f) <= 1) \
                                            : spec_format_wf(FT(f), (f)->_value_size, (f)->_imm_bit_count, (f)->_imm_bit_shift, (f)->_imm_discard_lsb, 32))
static inline uint64_t c_le64(const uint8_t* p, unsigned n) { uint64_t v = 0; for (unsigned i = 0; i < 8; i++) if (i < n) v |= (uint64_t)p[i] << (8 * i); return v; }
static inline _Bool c_in_bounds(const struct RelocEntry* re, const struct Section* s) {
  return re->_source_offset < s->_buffer._size && s->_buffer._size - re->_source_offset >= re->_format._region_size;
}
static inline _Bool c_reloc_state(const struct CodeHolder* self) {
  if (SECS(self)._size != 2 || RELS(self)._size > 1 || self->_address_table_section != NULL) return 0;
  if (!((unsigned)self->_environment._arch == 1 || (unsigned)self->_environment._arch == 2)) return 0;      /* x86 / x86-64 */
  for (unsigned i = 0; i < 2; i++) { if (SECP(self, i)->_buffer._size > VERIF_BUF || SECP(self, i)->_offset != g_off[i] || g_off[i] > ((uint64_t)1 << 40) || g_bsz[i] != SECP(self, i)->_buffer._size) return 0; }
  if (SBO(self)._size != 2 || ((struct Section**)SBO(self)._data)[1] != SECP(self, 1)) return 0;
  if (g_base0 != self->_base_address) return 0;
  if (RELS(self)._size == 1) {
    const struct RelocEntry* re = REL(self, 0);
    if (RT(re) > 6 || RT(re) == 1 /* kExpression: not covered */) return 0;
    if (re->_source_section_id >= 2 || !(re->_target_section_id < 2 || re->_target_section_id == 0xFFFFFFFFu)) return 0;
    if (!FMT_WF_ANY(&re->_format) || (unsigned)re->_format._value_offset + re->_format._value_size > re->_format._region_size) return 0;
    if (RT(&g_re0) != RT(re) || g_re0._source_section_id != re->_source_section_id || g_re0._target_section_id != re->_target_section_id ||
        g_re0._source_offset != re->_source_offset || g_re0._payload != re->_payload) return 0;
    if (FT(&g_re0._format) != FT(&re->_format) || g_re0._format._flags != re->_format._flags || g_re0._format._region_size != re->_format._region_size || g_re0._format._value_size != re->_format._value_size ||
        g_re0._format._value_offset != re->_format._value_offset || g_re0._format._imm_bit_count != re->_format._imm_bit_count || g_re0._format._imm_bit_shift != re->_format._imm_bit_shift ||
        g_re0._format._imm_discard_lsb != re->_format._imm_discard_lsb) return 0;
    if (c_in_bounds(re, SECP(self, re->_source_section_id)) &&
        g_word0 != c_le64(SECP(self, re->_source_section_id)->_buffer._data + re->_source_offset + re->_format._value_offset, re->_format._value_size)) return 0;
  }
  return 1;
}
/* the value the relocation type prescribes; *err != 0 when the type's own range rule rejects it */
static inline uint64_t c_expected_value(const struct CodeHolder* self, const struct RelocEntry* re, uint64_t base, uint32_t* err) {
  uint64_t v = g_re0._payload; *err = 0;
  unsigned addr_size = (unsigned)self->_environment._arch == 1 ? 4 : 8;
  uint64_t site_end = base + g_off[g_re0._source_section_id] + g_re0._source_offset + re->_format._region_size;   /* address after the patched region */
  switch (RT(&g_re0)) {
    case 3: /* kAbsToAbs */ return v;
    case 4: /* kRelToAbs */ if (g_re0._target_section_id == 0xFFFFFFFFu) { *err = E_INVALID_RELOC_ENTRY; return 0; } return v + base + g_off[g_re0._target_section_id];
    case 5: /* kAbsToRel */
    case 6: /* kX64AddressEntry, rel32 reachable */
      if (RT(&g_re0) == 6 && (re->_format._value_size != 4 || g_re0._source_offset + re->_format._value_offset < 2)) { *err = E_INVALID_RELOC_ENTRY; return 0; }
      v -= site_end;
      if (RT(&g_re0) == 5 && addr_size == 4) return (uint64_t)(int64_t)(int32_t)(uint32_t)v;      /* wraps in a 32-bit address space */
      if ((int64_t)v < -2147483648LL || (int64_t)v > 2147483647LL) { *err = RT(&g_re0) == 5 ? E_RELOC_OOR : E_INVALID_RELOC_ENTRY; return 0; }   /* no address table here */
      return v;
    default: *err = E_INVALID_RELOC_ENTRY; return 0;   /* kSectionRelative (2) is not handled by relocate_to_base */
  }
}
static inline int c_reloc_post(const struct CodeHolder* self, uint64_t base, uint32_t ret) {
  if (base == ~(uint64_t)0) return (ret == E_INVALID_ARGUMENT && self->_base_address == g_base0) ? 0 : 1;     /* R0 a base address is required */
  if (RELS(self)._size == 0 || RT(&g_re0) == 0) return ret == E_OK && self->_base_address == base ? 0 : 2;
  const struct RelocEntry* re = REL(self, 0);
  const struct Section* s = SECP(self, g_re0._source_section_id);
  uint64_t w = 0; _Bool inb = c_in_bounds(re, s);
  if (inb) w = c_le64(s->_buffer._data + g_re0._source_offset + re->_format._value_offset, re->_format._value_size);
  if (!inb) return ret == E_INVALID_RELOC_ENTRY ? 0 : 3;                                  /* R1 out-of-section entries are rejected (no write is possible: frame) */
  uint32_t err; uint64_t want = c_expected_value(self, re, base, &err);
  if (err) return (ret == err && w == g_word0) ? 0 : 4;                                     /* R2 type-specific rejection, site untouched */
  _Bool fits = spec_representable((int64_t)want, FT(&re->_format), re->_format._imm_bit_count, re->_format._imm_discard_lsb);
  if (!fits) return (ret == E_INVALID_RELOC_ENTRY && w == g_word0) ? 0 : 5;                 /* R3 value does not fit the field */
  if (ret != E_OK) return 6;
  uint64_t m = spec_field_mask(FT(&re->_format), re->_format._imm_bit_count, re->_format._imm_bit_shift);
  if ((w & ~m) != (g_word0 & ~m)) return 7;                                                 /* R4 only the field changes */
  if ((g_word0 & m) == 0 && (uint64_t)spec_offset_decode(w, FT(&re->_format), re->_format._imm_bit_count, re->_format._imm_bit_shift, re->_format._imm_discard_lsb) != want) return 8;  /* R5 */
  return self->_base_address == base ? 0 : 9;
}
#define FRESH_SEC(self, i) __CPROVER_requires(__CPROVER_is_fresh(SECP(self, i), sizeof(struct Section))) \
  __CPROVER_requires(__CPROVER_is_fresh(SECP(self, i)->_buffer._data, VERIF_BUF))
#define CONTRACT_CodeHolder_relocate_to_base \
  __CPROVER_requires(__CPROVER_is_fresh(self, sizeof(*self))) \
  __CPROVER_requires(summary_out == NULL || __CPROVER_is_fresh(summary_out, sizeof(*summary_out))) \
  __CPROVER_requires(__CPROVER_is_fresh(SECS(self)._data, 2 * sizeof(struct Section*))) \
  __CPROVER_requires(__CPROVER_is_fresh(self->_sections_by_order.__b0._data, 2 * sizeof(struct Section*))) \
  FRESH_SEC(self, 0) FRESH_SEC(self, 1) \
  __CPROVER_requires(__CPROVER_is_fresh(RELS(self)._data, sizeof(struct RelocEntry*))) \
  __CPROVER_requires(__CPROVER_is_fresh(REL(self, 0), sizeof(struct RelocEntry))) \
  __CPROVER_requires(c_reloc_state(self) && (base_address <= ((uint64_t)1 << 62) || base_address == ~(uint64_t)0)) \
  __CPROVER_assigns(self->_base_address, __CPROVER_object_whole(SECP(self, 0)->_buffer._data), __CPROVER_object_whole(SECP(self, 1)->_buffer._data)) \
  __CPROVER_assigns(summary_out != NULL: *summary_out) \
  __CPROVER_ensures(c_reloc_post(self, base_address, __CPROVER_return_value) == 0)
/* never reached in the covered configurations (no address table, no expression entries): assumed trivial contracts */
#define CONTRACT_CodeHolder_reserve_buffer __CPROVER_requires(0) __CPROVER_assigns() __CPROVER_ensures(1)
#define CONTRACT_CodeHolder_evaluate_expression __CPROVER_requires(0) __CPROVER_assigns() __CPROVER_ensures(1)
#define CONTRACT_ArenaTree_AddressTableEntry_get_u64_Support_Compare_Support_SortOrder_kAscending \
  __CPROVER_assigns() __CPROVER_ensures(__CPROVER_return_value == NULL)   /* empty address table */
#endif
