/* Contracts for the bit-vector primitives used by JitAllocator (property C09 layer 1, also C18). Vectors bounded by VERIF_W words. */
#include "spec/bits.h"
#ifndef VERIF_W
#define VERIF_W 2
#endif
#define NBITS ((size_t)VERIF_W * 64)
uint64_t g_v0[VERIF_W];          /* ghost: entry contents */
size_t g_w, g_pos, g_q;          /* ghost witnesses: word index, bit positions */
size_t nondet_size_t(void);
#define VERIF_GHOST_INIT() (g_w = nondet_size_t(), g_pos = nondet_size_t(), g_q = nondet_size_t(), __CPROVER_havoc_object(g_v0))
static inline _Bool c_snap(const uint64_t* buf) { for (unsigned i = 0; i < VERIF_W; i++) if (buf[i] != g_v0[i]) return 0; return 1; }

#define VEC_PRE(buf) \
  __CPROVER_requires(__CPROVER_is_fresh(buf, VERIF_W * sizeof(uint64_t))) \
  __CPROVER_requires(c_snap(buf))

#define CONTRACT_Support_bit_vector_fill_u64 \
  VEC_PRE(buf) \
  __CPROVER_requires(count <= NBITS && index <= NBITS - count) \
  __CPROVER_assigns(__CPROVER_object_whole(buf)) \
  __CPROVER_ensures(g_w < VERIF_W ==> buf[g_w] == (g_v0[g_w] | spec_range_mask64(g_w, index, count)))

#define CONTRACT_Support_bit_vector_clear_u64 \
  VEC_PRE(buf) \
  __CPROVER_requires(count <= NBITS && index <= NBITS - count) \
  __CPROVER_assigns(__CPROVER_object_whole(buf)) \
  __CPROVER_ensures(g_w < VERIF_W ==> buf[g_w] == (g_v0[g_w] & ~spec_range_mask64(g_w, index, count)))

#define CONTRACT_Support_bit_vector_set_bit_u64 \
  VEC_PRE(buf) \
  __CPROVER_requires(index < NBITS) \
  __CPROVER_assigns(__CPROVER_object_whole(buf)) \
  __CPROVER_ensures(g_w < VERIF_W ==> buf[g_w] == ((g_v0[g_w] & ~spec_range_mask64(g_w, index, 1)) | (value ? spec_range_mask64(g_w, index, 1) : 0)))

#define CONTRACT_Support_bit_vector_get_bit_u64 \
  VEC_PRE(buf) \
  __CPROVER_requires(index < NBITS) \
  __CPROVER_assigns() \
  __CPROVER_ensures(__CPROVER_return_value == spec_bit(buf, index))

/* index_of has no bound of its own: the caller must guarantee that a matching bit exists at or after `start` (witness g_pos) */
#define CONTRACT_Support_bit_vector_index_of_u64 \
  VEC_PRE(buf) \
  __CPROVER_requires(start <= g_pos && g_pos < NBITS && spec_bit(buf, g_pos) == value) \
  __CPROVER_assigns() \
  __CPROVER_ensures(__CPROVER_return_value >= start && __CPROVER_return_value <= g_pos) \
  __CPROVER_ensures(spec_bit(buf, __CPROVER_return_value) == value) \
  __CPROVER_ensures((g_q >= start && g_q < __CPROVER_return_value) ==> spec_bit(buf, g_q) != value)

/* lemma: the closed-form mask / popcount used by the specifications equal their loop definitions */
static inline _Bool lemma_range_mask(size_t w, size_t index, size_t count, uint64_t x)
__CPROVER_requires(w <= 64 && index <= 8192 && count <= 8192)
__CPROVER_assigns()
__CPROVER_ensures(__CPROVER_return_value)
{
  return spec_range_mask64(w, index, count) == spec_range_mask64_ref(w, index, count) && spec_popcount64(x) == spec_popcount64_ref(x);
}
