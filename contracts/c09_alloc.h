/* Contract for JitAllocator::alloc (property C09, layer 3): a successful call hands out granules that were FREE on entry (asserted as the
 * precondition of mark_allocated_area, which is REPLACED by its contract - unit c09.block.mark_allocated_area - and whose cases (a)
 * incremental fast path / (b) range search are exactly what alloc may hand it), inside the block, as a span whose two views start at
 * the granule's offset and whose size is the request rounded up to the granularity; the allocation count grows by one; the block is
 * well-formed on EVERY exit path - including a failed search, which rewrites the search cache; an error leaves the used/stop vectors
 * and the count as they were; sizes of 0 or above 2^31 are rejected;
 * (Completeness - a free run of the requested length exists => the request does not fail - is written down as clause Z2 but NOT decided: with it the
 * solver did not finish in 25 minutes; it is compiled out.)
 * One pool holding one block (the cursor designates it or the pool is empty); block creation is outside this unit:
 * JitAllocator_new_block is an ASSUMED stub that fails, so "no room -> new block" is covered up to the call. The range iterator is inlined
 * (its own contract: c09.range_iterator.*). Block vectors bounded by VERIF_W words. */
#include "contracts/c09_release.h"
#if defined(HAVE_STRUCT_JitAllocatorBlock) && defined(HAVE_STRUCT_JitAllocatorPrivateImpl) && defined(HAVE_STRUCT_JitAllocator) && defined(HAVE_STRUCT_JitAllocator_Span)
struct JitAllocatorPool* g_apool; uint8_t g_has_block; uint32_t g_run;      /* ghost: the pool; does it hold the block; a candidate start of a free run */
#undef VERIF_GHOST_INIT
#define VERIF_GHOST_INIT() (g_w = nondet_size_t(), g_ra = nondet_u32(), g_rb = nondet_u32(), __CPROVER_havoc_object(&g_b0), \
   __CPROVER_havoc_object(&g_p0), __CPROVER_havoc_object(g_used0), __CPROVER_havoc_object(g_stop0), \
   __CPROVER_havoc_object(&g_dual), __CPROVER_havoc_object(&g_rw0), __CPROVER_havoc_object(&g_rx0), \
   __CPROVER_havoc_object(&g_blk), __CPROVER_havoc_object(&g_count0), __CPROVER_havoc_object(&g_empty0), __CPROVER_havoc_object(&g_apool), __CPROVER_havoc_object(&g_has_block), g_run = nondet_u32())
/* ASSUMED stubs: block creation fails; the ideal block size is whatever */
uint64_t nondet_u64(void);
uint64_t JitAllocator_calculate_ideal_block_size(struct JitAllocatorPrivateImpl *impl, struct JitAllocatorPool *pool, uint64_t allocation_size) { return nondet_u64(); }
uint32_t JitAllocator_new_block(struct JitAllocatorPrivateImpl *impl, struct JitAllocatorBlock **dst, struct JitAllocatorPool *pool, uint64_t block_size) { return 1u; /* kOutOfMemory */ }
void JitAllocatorImpl_insertBlock(struct JitAllocatorPrivateImpl *impl, struct JitAllocatorBlock *block) { __CPROVER_assert(0, "insertBlock is unreachable: new_block fails in this unit"); }

static inline _Bool c_alloc_state(const struct JitAllocator* self) {
  const struct JitAllocatorPrivateImpl* impl = IMPL(self);
  const struct JitAllocatorPool* p = impl->pools;
  uint32_t bg = ((const struct JitAllocator_Impl*)impl)->granularity;
  if (impl->pool_count != 1 || !(bg == 64 || bg == 128 || bg == 256)) return 0;
  if (p->granularity != bg || p->granularity_log2 != (bg == 64 ? 6 : bg == 128 ? 7 : 8)) return 0;
  if (impl->allocation_count != g_count0 || g_count0 > ((uint64_t)1 << 40) || p->empty_block_count != g_empty0) return 0;
  if (!g_has_block) return p->cursor == NULL && p->blocks._nodes[0] == NULL && p->blocks._nodes[1] == NULL;
  const struct JitAllocatorBlock* b = p->cursor;
  if (b->_area_size > 64u * VERIF_W || b->_area_size < 2) return 0;
  if (b->__b1._list_nodes[0] != NULL || b->__b1._list_nodes[1] != NULL) return 0;       /* the only block of its pool */
  if (b->_block_size != ((uint64_t)b->_area_size << p->granularity_log2)) return 0;
  if (((b->_flags & F_EMPTY) != 0) && g_empty0 < 1) return 0;                            /* an empty block is counted as retained */
  return 1;
}
static inline int c_alloc_post(const struct JitAllocator* self, const struct JitAllocator_Span* out, uint64_t size, uint32_t ret) {
  const struct JitAllocatorPrivateImpl* impl = IMPL(self);
  const struct JitAllocatorBlock* blk = impl->pools->cursor;   /* alloc never moves the cursor */
  uint32_t gran = ((const struct JitAllocator_Impl*)impl)->granularity;
  uint64_t asz = (size + gran - 1) & ~(uint64_t)(gran - 1);                               /* the request rounded up to the granularity */
  unsigned lg = gran == 64 ? 6 : gran == 128 ? 7 : 8;                                      /* (shifts, not divisions: the solver does not cope with a symbolic divisor) */
  uint64_t n = asz >> lg;
  _Bool bad_size = (size == 0) || size > ((uint64_t)1 << 31) - 1 || asz > ((uint64_t)1 << 31) - 1;
  if (g_has_block && c_wf_code(blk) != 0) return 1;                                     /* Z0 the block is well-formed on every exit path */
  if (ret != 0) {                                                                          /* Z1 errors: nothing is handed out */
    if (out->_rx != NULL || out->_rw != NULL || out->_size != 0 || out->_block != NULL) return 2;
    if (impl->allocation_count != g_count0) return 3;
    if (g_has_block && g_w < VERIF_W && (blk->_used_bit_vector[g_w] != g_used0[g_w] || blk->_stop_bit_vector[g_w] != g_stop0[g_w])) return 4;
    if (g_has_block && blk->_area_used != g_b0._area_used) return 5;
    if (bad_size) return (ret == (size == 0 ? 2u /* kInvalidArgument */ : 9u /* kTooLarge */)) ? 0 : 6;
    if (ret != 1 /* kOutOfMemory: block creation (stub) failed */) return 7;
    /* Z2 completeness: with a free run of n granules in the block the request must not have failed */
#ifdef VERIF_ALLOC_COMPLETENESS   /* not decided within the time budget: the search-completeness obligation made the solver run > 25 minutes */
    if (g_has_block && n <= g_b0._area_size && g_run <= g_b0._area_size - n && spec_all_bits(g_used0, VERIF_W, g_run, g_run + n, 0)) return 8;
#endif
    return 0;
  }
  if (bad_size || !g_has_block) return 9;
  /* Z3 the span: both views at the same granule offset inside the block, the rounded size, owned by the block */
  uint64_t off = __CPROVER_POINTER_OFFSET(out->_rx);
  if (!__CPROVER_same_object(out->_rx, g_rx0) || !__CPROVER_same_object(out->_rw, g_rw0) || __CPROVER_POINTER_OFFSET(out->_rw) != off) return 10;
  if ((off & (uint64_t)(gran - 1)) != 0 || out->_size != asz || out->_block != (void*)blk) return 11;
  uint64_t idx = off >> lg;
  if (idx + n > g_b0._area_size) return 12;
  if (!spec_all_bits(g_used0, VERIF_W, idx, idx + n, 0)) return 13;                         /* Z4 the granules handed out were free on entry */
  if (g_w < VERIF_W && blk->_used_bit_vector[g_w] != (g_used0[g_w] | spec_range_mask64(g_w, idx, n))) return 14;   /* Z5 exactly they are marked used now */
  if (blk->_area_used != g_b0._area_used + n || impl->allocation_count != g_count0 + 1) return 15;
  if (blk->_pool->empty_block_count != g_empty0 - ((g_b0._flags & F_EMPTY) ? 1 : 0)) return 16;   /* Z6 a retained empty block that is used again is no longer counted */
  return 0;
}
#define ABLK(self) (IMPL(self)->pools->cursor)
#define CONTRACT_JitAllocator_alloc \
  __CPROVER_requires(__CPROVER_is_fresh(self, sizeof(*self))) \
  __CPROVER_requires(__CPROVER_is_fresh(self->_impl, sizeof(struct JitAllocatorPrivateImpl))) \
  __CPROVER_requires(__CPROVER_is_fresh(out._val, sizeof(struct JitAllocator_Span))) \
  __CPROVER_requires(__CPROVER_is_fresh(IMPL(self)->pools, sizeof(struct JitAllocatorPool)) && g_apool == IMPL(self)->pools) \
  __CPROVER_requires(g_has_block ? __CPROVER_is_fresh(IMPL(self)->pools->cursor, sizeof(struct JitAllocatorBlock)) : IMPL(self)->pools->cursor == NULL) \
  __CPROVER_requires(!g_has_block || (g_blk == IMPL(self)->pools->cursor && IMPL(self)->pools->blocks._nodes[0] == g_blk && IMPL(self)->pools->blocks._nodes[1] == g_blk)) \
  __CPROVER_requires(!g_has_block || PINS(IMPL(self)->pools->cursor->_pool, IMPL(self)->pools)) \
  __CPROVER_requires(!g_has_block || __CPROVER_is_fresh(ABLK(self)->_used_bit_vector, VERIF_W * sizeof(uint64_t))) \
  __CPROVER_requires(!g_has_block || __CPROVER_is_fresh(ABLK(self)->_stop_bit_vector, VERIF_W * sizeof(uint64_t))) \
  __CPROVER_requires(!g_has_block || __CPROVER_is_fresh(ABLK(self)->_mapping.rw, MAPB)) \
  __CPROVER_requires(!g_has_block || (g_dual ? __CPROVER_is_fresh(ABLK(self)->_mapping.rx, MAPB) : PINS(ABLK(self)->_mapping.rx, ABLK(self)->_mapping.rw))) \
  __CPROVER_requires(!g_has_block || (g_rw0 == (uint8_t*)ABLK(self)->_mapping.rw && g_rx0 == (uint8_t*)ABLK(self)->_mapping.rx && c_block_snap(ABLK(self)) && c_wf_block(ABLK(self)))) \
  __CPROVER_requires(c_alloc_state(self)) \
  __CPROVER_assigns(*out._val, IMPL(self)->allocation_count, IMPL(self)->pools->empty_block_count, IMPL(self)->pools->total_area_used[0], IMPL(self)->pools->total_area_used[1]) \
  __CPROVER_assigns(g_has_block: ABLK(self)->_flags, ABLK(self)->_area_used, ABLK(self)->_largest_unused_area, ABLK(self)->_search_start, ABLK(self)->_search_end, \
                    __CPROVER_object_whole(ABLK(self)->_used_bit_vector), __CPROVER_object_whole(ABLK(self)->_stop_bit_vector)) \
  __CPROVER_ensures(c_alloc_post(self, out._val, size, __CPROVER_return_value) == 0)
#endif
