/* Contracts for ResolveFixupIterator (property C03, "patching on bind and fixup-list splicing"): the iterator walks a singly linked
 * chain through a pointer to the link that leads to the current node; its invariant is  *_prev == _fixup.
 *   next():             keeps the current node in the chain and steps over it (counted as unresolved)
 *   resolve_and_next(): unlinks the current node - the link that led to it now leads to its successor -, steps to the successor, counts
 *                       it as resolved and gives the record back to the holder's pool (it becomes the pool's head)
 * Both re-establish the invariant. Loop-free code: complete. (Added after seed C03-03, which the quick tier of bind_label - one pending
 * reference - cannot see.) */
#include "spec/specdefs.h"
#if defined(HAVE_STRUCT_ResolveFixupIterator) && defined(HAVE_STRUCT_Fixup)
struct Fixup* g_cur0; struct Fixup* g_next0; struct Fixup** g_prev0; uint64_t g_res0, g_unres0; void* g_poolhead0;
#define VERIF_GHOST_INIT() (__CPROVER_havoc_object(&g_cur0), __CPROVER_havoc_object(&g_next0), __CPROVER_havoc_object(&g_prev0), __CPROVER_havoc_object(&g_res0), \
   __CPROVER_havoc_object(&g_unres0), __CPROVER_havoc_object(&g_poolhead0))
#define PINI(lv, val) __CPROVER_pointer_in_range_dfcc(val, lv, val)
#define ITER_PRE(self) \
  __CPROVER_requires(__CPROVER_is_fresh(self, sizeof(*self))) \
  __CPROVER_requires(__CPROVER_is_fresh(self->_fixup, sizeof(struct Fixup))) \
  __CPROVER_requires(__CPROVER_is_fresh(self->_prev, sizeof(struct Fixup*)) && PINI(*self->_prev, self->_fixup))          /* invariant: the link leads to the current node */ \
  __CPROVER_requires(g_cur0 == self->_fixup && g_next0 == self->_fixup->next && g_prev0 == self->_prev && g_res0 == self->_resolved_count && g_unres0 == self->_unresolved_count) \
  __CPROVER_requires(g_res0 < UINT64_MAX && g_unres0 < UINT64_MAX)
#ifdef HAVE_STRUCT_CodeHolder
#define CONTRACT_ResolveFixupIterator_resolve_and_next \
  ITER_PRE(self) \
  __CPROVER_requires(__CPROVER_is_fresh(code, sizeof(*code)) && g_poolhead0 == (void*)code->_fixup_data_pool._data) \
  __CPROVER_assigns(*self, *self->_prev, code->_fixup_data_pool._data, __CPROVER_object_whole(self->_fixup)) \
  __CPROVER_ensures(*g_prev0 == g_next0)                          /* I1 unlinked: the link now leads to the successor */ \
  __CPROVER_ensures(self->_fixup == g_next0 && self->_prev == g_prev0)   /* I2 invariant re-established at the successor */ \
  __CPROVER_ensures(self->_resolved_count == g_res0 + 1 && self->_unresolved_count == g_unres0) \
  __CPROVER_ensures((void*)code->_fixup_data_pool._data == (void*)g_cur0 && ((struct ArenaPool_Fixup_40_Link*)g_cur0)->next == g_poolhead0)   /* I3 record back in the pool */
#endif
#define CONTRACT_ResolveFixupIterator_next \
  ITER_PRE(self) \
  __CPROVER_assigns(*self) \
  __CPROVER_ensures(*g_prev0 == g_cur0 && g_cur0->next == g_next0)      /* the chain is untouched */ \
  __CPROVER_ensures(self->_fixup == g_next0 && self->_prev == &g_cur0->next)   /* invariant at the successor: the link is the current node's next field */ \
  __CPROVER_ensures(self->_unresolved_count == g_unres0 + 1 && self->_resolved_count == g_res0)
#endif
