/* Contracts for CodeWriterUtils::encode_offset32/64, write_offset (property C17). */
#include "spec/offset.h"

#define FMT_ARGS(f) (f)->_type, (f)->_imm_bit_count, (f)->_imm_bit_shift
#define FMT_WF(f, bits) spec_format_wf((f)->_type, (f)->_value_size, (f)->_imm_bit_count, (f)->_imm_bit_shift, (f)->_imm_discard_lsb, bits)

#define CONTRACT_CodeWriterUtils_encode_offset32 \
  __CPROVER_requires(__CPROVER_is_fresh(dst, sizeof(*dst))) \
  __CPROVER_requires(__CPROVER_is_fresh(format, sizeof(*format))) \
  __CPROVER_requires(FMT_WF(format, 32)) \
  __CPROVER_assigns(*dst) \
  /* O1 round trip */ \
  __CPROVER_ensures(__CPROVER_return_value ==> \
     spec_offset_decode(*dst, FMT_ARGS(format), format->_imm_discard_lsb) == __CPROVER_old(offset64)) \
  /* O2 nothing outside the field */ \
  __CPROVER_ensures(__CPROVER_return_value ==> \
     (*dst & ~(uint32_t)spec_field_mask(FMT_ARGS(format))) == 0) \
  /* O3 completeness: rejects exactly the unrepresentable displacements */ \
  __CPROVER_ensures(__CPROVER_return_value == \
     spec_representable(__CPROVER_old(offset64), format->_type, format->_imm_bit_count, format->_imm_discard_lsb))
