/* Contracts for CodeWriterUtils::encode_offset32/64, write_offset (property C17). */
#include "spec/offset.h"

#define FMT_ARGS(f) (f)->_type, (f)->_imm_bit_count, (f)->_imm_bit_shift
#define FMT_WF(f, bits) spec_format_wf((f)->_type, (f)->_value_size, (f)->_imm_bit_count, (f)->_imm_bit_shift, (f)->_imm_discard_lsb, bits)

#define CONTRACT_CodeWriterUtils_encode_offset32 \
  __CPROVER_requires(__CPROVER_is_fresh(dst, sizeof(*dst))) \
  __CPROVER_requires(__CPROVER_is_fresh(format, sizeof(*format))) \
  __CPROVER_requires(FMT_WF(format, 32)) \
  __CPROVER_assigns(*dst) \
  /* O1 round trip */ \
  __CPROVER_ensures(__CPROVER_return_value ==> \
     spec_offset_decode(*dst, FMT_ARGS(format), format->_imm_discard_lsb) == __CPROVER_old(offset64)) \
  /* O2 nothing outside the field */ \
  __CPROVER_ensures(__CPROVER_return_value ==> \
     (*dst & ~(uint32_t)spec_field_mask(FMT_ARGS(format))) == 0) \
  /* O3 completeness: rejects exactly the unrepresentable displacements */ \
  __CPROVER_ensures(__CPROVER_return_value == \
     spec_representable(__CPROVER_old(offset64), format->_type, format->_imm_bit_count, format->_imm_discard_lsb))

#define CONTRACT_CodeWriterUtils_encode_offset64 \
  __CPROVER_requires(__CPROVER_is_fresh(dst, sizeof(*dst))) \
  __CPROVER_requires(__CPROVER_is_fresh(format, sizeof(*format))) \
  __CPROVER_requires(FMT_WF(format, 64) && format->_type <= SPEC_OT_UNSIGNED) \
  __CPROVER_assigns(*dst) \
  __CPROVER_ensures(__CPROVER_return_value ==> \
     spec_offset_decode(*dst, FMT_ARGS(format), format->_imm_discard_lsb) == __CPROVER_old(offset64)) \
  __CPROVER_ensures(__CPROVER_return_value ==> (*dst & ~spec_field_mask(FMT_ARGS(format))) == 0) \
  __CPROVER_ensures(__CPROVER_return_value == \
     spec_representable(__CPROVER_old(offset64), format->_type, format->_imm_bit_count, format->_imm_discard_lsb))

/* ---- write_offset: patches the word at dst + value_offset ------------------------------------------------------ */
static inline uint64_t c_load_le(const uint8_t* p, unsigned n) {
  uint64_t v = 0;
  for (unsigned i = 0; i < 8; i++) if (i < n) v |= (uint64_t)p[i] << (8 * i);
  return v;
}
size_t g_k;   /* ghost byte index: arbitrary */
size_t nondet_size_t(void);
#define VERIF_GHOST_INIT() (g_k = nondet_size_t())
#define WO_SIZE(f) ((size_t)(f)->_value_offset + (f)->_value_size)
#define WO_WORD(d, f) c_load_le((const uint8_t*)(d) + (f)->_value_offset, (f)->_value_size)
/* the word at function entry, byte by byte (history of call expressions is not supported by the instrumentation) */
#define WO_OLDB(i) ((i) < format->_value_size ? ((uint64_t)__CPROVER_old(((uint8_t*)dst)[format->_value_offset + ((i) < format->_value_size ? (i) : 0)]) << (8 * (i))) : 0)
#define WO_OLDWORD (WO_OLDB(0) | WO_OLDB(1) | WO_OLDB(2) | WO_OLDB(3) | WO_OLDB(4) | WO_OLDB(5) | WO_OLDB(6) | WO_OLDB(7))
#define WO_MASK(f) spec_field_mask(FMT_ARGS(f))
#define WO_WF(f) (((f)->_value_size == 8) ? (FMT_WF(f, 64) && (f)->_type <= SPEC_OT_UNSIGNED) : FMT_WF(f, 32))

#define CONTRACT_CodeWriterUtils_write_offset \
  __CPROVER_requires(__CPROVER_is_fresh(format, sizeof(*format))) \
  __CPROVER_requires(WO_WF(format)) \
  __CPROVER_requires(__CPROVER_is_fresh(dst, WO_SIZE(format))) \
  __CPROVER_assigns(__CPROVER_object_upto(dst, WO_SIZE(format))) \
  /* W1 frame: no byte outside [value_offset, value_offset + value_size) changes */ \
  __CPROVER_ensures((g_k < format->_value_offset) ==> \
     ((uint8_t*)__CPROVER_old(dst))[g_k] == __CPROVER_old(((uint8_t*)dst)[g_k < format->_value_offset ? g_k : 0])) \
  /* W2 failure leaves memory untouched */ \
  __CPROVER_ensures(!__CPROVER_return_value ==> WO_WORD(__CPROVER_old(dst), format) == WO_OLDWORD) \
  /* W3 bits outside the field keep the value the reference site wrote */ \
  __CPROVER_ensures(__CPROVER_return_value ==> \
     (WO_WORD(__CPROVER_old(dst), format) & ~WO_MASK(format)) == (WO_OLDWORD & ~WO_MASK(format))) \
  /* W4 with a zero field in the placeholder (what every reference site emits) the patched word decodes to the displacement */ \
  __CPROVER_ensures((__CPROVER_return_value && (WO_OLDWORD & WO_MASK(format)) == 0) ==> \
     spec_offset_decode(WO_WORD(__CPROVER_old(dst), format), FMT_ARGS(format), format->_imm_discard_lsb) == offset64) \
  /* W5 accepted exactly when representable */ \
  __CPROVER_ensures(__CPROVER_return_value == \
     spec_representable(offset64, format->_type, format->_imm_bit_count, format->_imm_discard_lsb))

#define CONTRACT_EmitterUtils_is_encodable_offset_32 \
  __CPROVER_requires(num_bits >= 1 && num_bits <= 32) \
  __CPROVER_assigns() \
  __CPROVER_ensures(__CPROVER_return_value == spec_representable(offset, SPEC_OT_SIGNED, num_bits, 0))
#define CONTRACT_EmitterUtils_is_encodable_offset_64 \
  __CPROVER_requires(num_bits >= 1 && num_bits <= 64) \
  __CPROVER_assigns() \
  __CPROVER_ensures(__CPROVER_return_value == spec_representable(offset, SPEC_OT_SIGNED, num_bits, 0))
#define CONTRACT_Support_is_int_n_32_i64 \
  __CPROVER_assigns() \
  __CPROVER_ensures(__CPROVER_return_value == (x >= -2147483648L && x <= 2147483647L))
