/* Contract for CodeHolder::resolve_cross_section_fixups (property C03): once sections have their offsets, every cross-section
 * reference whose label is bound is patched with  (target section offset + label offset) - (source section offset + site) + rel;
 * a reference whose displacement overflows or does not fit its field stays in the list and stays counted (overflow is reported
 * as kInvalidDisplacement); the count drops by exactly the number of references resolved.
 * Bounds: 1 bound label, 2 sections (buffers <= VERIF_BUF bytes), <= VERIF_NFIX references in the holder's list. */
#include "contracts/c03_bind.h"
#ifdef HAVE_STRUCT_CodeHolder
uint64_t g_soff[2], g_loff; uint32_t g_lsec;        /* ghost: section offsets, label offset and section on entry */
#undef VERIF_GHOST_INIT
#define VERIF_GHOST_INIT() (g_k = nondet_size_t(), __CPROVER_havoc_object(&g_fx0), __CPROVER_havoc_object(&g_fx1), __CPROVER_havoc_object(&g_f0), __CPROVER_havoc_object(&g_f1), \
  __CPROVER_havoc_object(&g_unresolved0), __CPROVER_havoc_object(g_word0), __CPROVER_havoc_object(&g_nfix), __CPROVER_havoc_object(g_soff), __CPROVER_havoc_object(&g_loff), __CPROVER_havoc_object(&g_lsec))

static inline _Bool c_res_state(const struct CodeHolder* self) {
  if (LABELS(self)._size != 1 || SECS(self)._size != 2) return 0;
  for (unsigned i = 0; i < 2; i++) { if (SECP(self, i)->__b0._section_id != i || SECP(self, i)->_buffer._size > VERIF_BUF || SECP(self, i)->_offset != g_soff[i]) return 0; }
  const struct LabelEntry* le = LE(self, 0);
  if (le->_object_data->_section_id != g_lsec || g_lsec >= 2 || le->_offset_or_fixups != g_loff) return 0;     /* the label is bound */
  if (g_nfix < 1 || g_nfix > VERIF_NFIX) return 0;
  const struct Fixup* h = self->_fixups;
  if (g_fx0 != h || !c_fixup_ok(self, h) || h->label_or_reloc_id != 0) return 0;        /* tagged with the label (id 0) by bind_label */
  if (g_nfix == 1) { if (h->next != NULL) return 0; }
  else {
    if (g_fx1 != h->next || h->next->next != NULL || !c_fixup_ok(self, h->next) || h->next->label_or_reloc_id != 0) return 0;
    const struct Fixup* a = h; const struct Fixup* b = h->next;
    if (a->section_id == b->section_id && !(a->offset + a->format._region_size <= b->offset || b->offset + b->format._region_size <= a->offset)) return 0;
  }
  if (!c_fix_snap(self, h, &g_f0, g_word0[0])) return 0;
  if (g_nfix == 2 && !c_fix_snap(self, h->next, &g_f1, g_word0[1])) return 0;
  return self->_unresolved_fixup_count >= g_nfix && g_unresolved0 == self->_unresolved_fixup_count;
}
/* 0 = resolved, 1 = kept: does not fit the field, 2 = kept: the address computation overflows */
static inline int c_res_class(const struct Fixup* snap, int64_t* disp) {
  uint64_t to = g_soff[g_lsec] + g_loff, from = g_soff[snap->section_id] + snap->offset;
  if (to < g_loff || from < snap->offset) return 2;
  *disp = (int64_t)(to - from + (uint64_t)snap->rel);
  return spec_representable(*disp, snap->format._type, snap->format._imm_bit_count, snap->format._imm_discard_lsb) ? 0 : 1;
}
static inline int c_res_post(const struct CodeHolder* self, uint32_t ret) {
  unsigned resolved = 0, overflowed = 0;
  const struct Fixup* p = self->_fixups;
  for (unsigned k = 0; k < 2; k++) {
    if (k >= g_nfix) break;
    const struct Fixup* snap = k == 0 ? &g_f0 : &g_f1;
    int64_t disp = 0; int c = c_res_class(snap, &disp);
    const struct Section* s = SECP(self, snap->section_id);
    uint64_t w = c_le64(s->_buffer._data + snap->offset + snap->format._value_offset, snap->format._value_size);
    if (c == 0) {                                          /* X1 patched: only the field changes, and it decodes to the displacement */
      uint64_t m = spec_field_mask(snap->format._type, snap->format._imm_bit_count, snap->format._imm_bit_shift);
      if ((w & ~m) != (g_word0[k] & ~m)) return 1;
      if ((g_word0[k] & m) == 0 && spec_offset_decode(w, snap->format._type, snap->format._imm_bit_count, snap->format._imm_bit_shift, snap->format._imm_discard_lsb) != disp) return 2;
      resolved++;
    } else {                                               /* X2 kept: still in the list, in order, describing the same untouched site */
      if (c == 2) overflowed++;
      if (p != (k == 0 ? g_fx0 : g_fx1)) return 3;
      if (p->label_or_reloc_id != 0 || p->section_id != snap->section_id || p->offset != snap->offset || p->rel != snap->rel) return 4;
      if (w != g_word0[k]) return 5;
      p = p->next;
    }
  }
  if (p != NULL) return 6;                                                                 /* X3 nothing else is in the list */
  if (self->_unresolved_fixup_count != g_unresolved0 - resolved) return 7;                /* X4 the count drops by exactly the resolved ones */
  if (ret != (overflowed ? E_INVALID_DISPLACEMENT : E_OK)) return 8;                       /* X5 overflow is reported */
  if (SECP(self, 0)->_offset != g_soff[0] || SECP(self, 1)->_offset != g_soff[1] || LE(self, 0)->_offset_or_fixups != g_loff) return 9;
  return 0;
}
#define CONTRACT_CodeHolder_resolve_cross_section_fixups \
  __CPROVER_requires(__CPROVER_is_fresh(self, sizeof(*self))) \
  __CPROVER_requires(__CPROVER_is_fresh(LABELS(self)._data, sizeof(struct LabelEntry))) \
  __CPROVER_requires(__CPROVER_is_fresh(SECS(self)._data, 2 * sizeof(struct Section*))) \
  FRESH_SEC(self, 0) FRESH_SEC(self, 1) \
  __CPROVER_requires(__CPROVER_is_fresh(LE(self, 0)->_object_data, sizeof(struct SectionOrLabelEntryExtraHeader) + 8)) \
  __CPROVER_requires(__CPROVER_is_fresh(self->_fixups, sizeof(struct Fixup))) \
  __CPROVER_requires(g_nfix != 2 || __CPROVER_is_fresh(self->_fixups->next, sizeof(struct Fixup))) \
  __CPROVER_requires(c_res_state(self)) \
  __CPROVER_assigns(*self, __CPROVER_object_whole(SECP(self, 0)->_buffer._data), __CPROVER_object_whole(SECP(self, 1)->_buffer._data), __CPROVER_object_whole(self->_fixups)) \
  __CPROVER_assigns(g_nfix == 2: __CPROVER_object_whole(self->_fixups->next)) \
  __CPROVER_ensures(c_res_post(self, __CPROVER_return_value) == 0)
#endif
