/* Contracts for CodeHolder::copy_flattened_data / copy_section_data (property C10): every write stays inside the destination,
 * error exactly when a section does not fit, copied bytes and zero padding are exact. memcpy/memset are replaced by contracts
 * (trusted libc stubs) so that all sizes stay symbolic; "inside the destination" is their asserted w_ok precondition. */
#include "spec/specdefs.h"
#ifndef VERIF_NSEC
#define VERIF_NSEC 2
#endif
#define MAXB ((uint64_t)1 << 24)          /* object-size cap of the model (CBMC object offsets), not of the code */
size_t g_ci;                              /* ghost byte index inside one copy / fill */
unsigned g_k;                             /* ghost section index */
size_t nondet_size_t(void); unsigned nondet_unsigned(void);
#define VERIF_GHOST_INIT() (g_ci = nondet_size_t(), g_k = nondet_unsigned())

void *memcpy(void *dst, const void *src, size_t n)
  __CPROVER_requires(n == 0 || (__CPROVER_w_ok(dst, n) && __CPROVER_r_ok(src, n)))
  __CPROVER_assigns(__CPROVER_object_upto(dst, n))
  __CPROVER_ensures(g_ci < n ==> ((const uint8_t*)dst)[g_ci] == ((const uint8_t*)src)[g_ci])
  __CPROVER_ensures(__CPROVER_return_value == dst);
void *memset(void *s, int c, size_t n)
  __CPROVER_requires(n == 0 || __CPROVER_w_ok(s, n))
  __CPROVER_assigns(__CPROVER_object_upto(s, n))
  __CPROVER_ensures(g_ci < n ==> ((const uint8_t*)s)[g_ci] == (uint8_t)c)
  __CPROVER_ensures(__CPROVER_return_value == s);

#ifdef HAVE_STRUCT_CodeHolder
#define SBO(self) ((self)->_sections_by_order.__b0)
#define SEC(self, i) (((struct Section**)SBO(self)._data)[i])
#define SEC_FRESH(self, i) __CPROVER_requires(__CPROVER_is_fresh(SEC(self, i), sizeof(struct Section))) \
  __CPROVER_requires(SEC(self, i)->_buffer._size <= MAXB) \
  __CPROVER_requires(__CPROVER_is_fresh(SEC(self, i)->_buffer._data, SEC(self, i)->_buffer._size ? SEC(self, i)->_buffer._size : 1))
#if VERIF_NSEC == 2
#define ALL_SECS(M, self) M(self, 0) M(self, 1)
#else
#define ALL_SECS(M, self) M(self, 0) M(self, 1) M(self, 2)
#endif
#define F_PAD_SECTION 1u
#define F_PAD_TARGET 2u

static inline _Bool c_fits(const struct Section* s, uint64_t dst_size) { return s->_offset <= dst_size && s->_buffer._size <= dst_size - s->_offset; }
static inline _Bool c_all_fit(const struct CodeHolder* self, uint64_t dst_size) {
  for (unsigned i = 0; i < VERIF_NSEC; i++) if (i < SBO(self)._size && !c_fits(SEC(self, i), dst_size)) return 0;
  return 1;
}
/* bytes section i may touch: its buffer, plus the zero padding up to its virtual size when asked */
static inline uint64_t c_extent(const struct Section* s, uint32_t flags) {
  uint64_t b = s->_buffer._size;
  return ((flags & F_PAD_SECTION) && s->_virtual_size > b) ? s->_virtual_size : b;
}
/* the state flatten() leaves: sections in order, extents do not reach the next section */
static inline _Bool c_laid_out(const struct CodeHolder* self, uint32_t flags) {
  for (unsigned i = 0; i + 1 < VERIF_NSEC; i++) {
    if (i + 1 < SBO(self)._size) {
      const struct Section* a = SEC(self, i); const struct Section* b = SEC(self, i + 1);
      if (a->_offset > b->_offset || c_extent(a, flags) > b->_offset - a->_offset) return 0;
    }
  }
  return 1;
}

#define CONTRACT_CodeHolder_copy_flattened_data \
  __CPROVER_requires(__CPROVER_is_fresh(self, sizeof(*self))) \
  __CPROVER_requires(SBO(self)._size <= VERIF_NSEC) \
  __CPROVER_requires(__CPROVER_is_fresh(SBO(self)._data, VERIF_NSEC * sizeof(struct Section*))) \
  ALL_SECS(SEC_FRESH, self) \
  __CPROVER_requires(dst_size <= MAXB && __CPROVER_is_fresh(dst, dst_size ? dst_size : 1)) \
  __CPROVER_requires(copy_flags <= 3) \
  __CPROVER_assigns(__CPROVER_object_whole(dst)) \
  /* K1 error exactly when some section does not fit into the destination */ \
  __CPROVER_ensures(__CPROVER_return_value == (c_all_fit(self, dst_size) ? 0u : 2u)) \
  /* K2 in a laid-out holder every byte of section k's buffer arrives at offset_k */ \
  __CPROVER_ensures((__CPROVER_return_value == 0 && c_laid_out(self, copy_flags) && g_k < SBO(self)._size && g_ci < SEC(self, g_k)->_buffer._size) ==> \
     ((const uint8_t*)dst)[SEC(self, g_k)->_offset + g_ci] == SEC(self, g_k)->_buffer._data[g_ci]) \
  /* K3 ... and the gap up to its virtual size (clipped to the destination) is zero when kPadSectionBuffer is given */ \
  __CPROVER_ensures((__CPROVER_return_value == 0 && c_laid_out(self, copy_flags) && (copy_flags & F_PAD_SECTION) && g_k < SBO(self)._size && \
      g_ci < SEC(self, g_k)->_virtual_size - SEC(self, g_k)->_buffer._size && SEC(self, g_k)->_buffer._size < SEC(self, g_k)->_virtual_size && \
      g_ci < dst_size - SEC(self, g_k)->_offset - SEC(self, g_k)->_buffer._size) ==> \
     ((const uint8_t*)dst)[SEC(self, g_k)->_offset + SEC(self, g_k)->_buffer._size + g_ci] == 0)

#define CONTRACT_CodeHolder_copy_section_data \
  __CPROVER_requires(__CPROVER_is_fresh(self, sizeof(*self))) \
  __CPROVER_requires(self->_sections.__b0._size <= VERIF_NSEC) \
  __CPROVER_requires(__CPROVER_is_fresh(self->_sections.__b0._data, VERIF_NSEC * sizeof(struct Section*))) \
  ALL_SECS(SID_FRESH, self) \
  __CPROVER_requires(dst_size <= MAXB && __CPROVER_is_fresh(dst, dst_size ? dst_size : 1)) \
  __CPROVER_requires(copy_flags <= 3) \
  __CPROVER_assigns(__CPROVER_object_whole(dst)) \
  __CPROVER_ensures(section_id >= self->_sections.__b0._size ==> __CPROVER_return_value == 19u /* kInvalidSection */) \
  __CPROVER_ensures(section_id < self->_sections.__b0._size ==> __CPROVER_return_value == (SID(self, section_id)->_buffer._size <= dst_size ? 0u : 2u)) \
  __CPROVER_ensures((__CPROVER_return_value == 0 && g_ci < SID(self, section_id)->_buffer._size) ==> ((const uint8_t*)dst)[g_ci] == SID(self, section_id)->_buffer._data[g_ci]) \
  __CPROVER_ensures((__CPROVER_return_value == 0 && (copy_flags & F_PAD_SECTION) && g_ci < dst_size - SID(self, section_id)->_buffer._size) ==> ((const uint8_t*)dst)[SID(self, section_id)->_buffer._size + g_ci] == 0)
#define SID(self, i) (((struct Section**)(self)->_sections.__b0._data)[i])
#define SID_FRESH(self, i) __CPROVER_requires(__CPROVER_is_fresh(SID(self, i), sizeof(struct Section))) \
  __CPROVER_requires(SID(self, i)->_buffer._size <= MAXB) \
  __CPROVER_requires(__CPROVER_is_fresh(SID(self, i)->_buffer._data, SID(self, i)->_buffer._size ? SID(self, i)->_buffer._size : 1))
#endif
