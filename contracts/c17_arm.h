/* Contracts for arm::Utils immediates and the a64 MOV-sequence / LMH encoders (properties C17, C02). */
#include "spec/arm.h"

/* ghost witnesses (unconstrained; proving for an arbitrary value proves it for all) */



unsigned g_N, g_S, g_R, g_imm8;
#ifdef HAVE_STRUCT_arm_Utils_LogicalImm
static inline _Bool c_logical_sound(uint64_t imm, unsigned width, const struct arm_Utils_LogicalImm* o) {
  uint64_t m = 0;
  if (!spec_decode_bitmasks(o->n, o->s, o->r, width, &m)) return 0;
  if (o->r >= spec_bitmask_esize(o->n, o->s)) return 0;          /* canonical rotation */
  return m == (imm & spec_ones64(width));
}
#endif
static inline _Bool c_logical_witness_hits(uint64_t imm, unsigned width) {
  uint64_t m = 0;
  return spec_decode_bitmasks(g_N, g_S, g_R, width, &m) && m == (imm & spec_ones64(width));
}

#define CONTRACT_arm_Utils_encode_logical_imm \
  __CPROVER_requires(width == 32 || width == 64) \
  __CPROVER_requires(__CPROVER_is_fresh(out._val, sizeof(*out._val))) \
  __CPROVER_assigns(*out._val) \
  /* soundness: accepted => N:imms:immr decode (DecodeBitMasks) to exactly the immediate */ \
  __CPROVER_ensures(__CPROVER_return_value ==> c_logical_sound(__CPROVER_old(imm), __CPROVER_old(width), out._val)) \
  /* completeness: any architecturally valid (N,imms,immr) whose mask equals imm => accepted */ \
  __CPROVER_ensures(c_logical_witness_hits(__CPROVER_old(imm), __CPROVER_old(width)) ==> __CPROVER_return_value)

/* is_logical_imm is encode_logical_imm with the result record thrown away. Its unit is modular: encode_logical_imm is replaced by the
 * contract above (proved in c17.encode_logical_imm) extended by a ghost record of the call, and is_logical_imm must return exactly
 * what that one call returned for exactly its own arguments - acceptance and rejection are then both exact by the callee's contract.
 * (The first version of this contract only had the completeness direction and missed seed C17-02.) */
#ifdef VERIF_UNIT_IS_LOGICAL_IMM
unsigned g_enc_calls; uint64_t g_enc_imm; unsigned g_enc_width; _Bool g_enc_ret;
#undef CONTRACT_arm_Utils_encode_logical_imm
#define CONTRACT_arm_Utils_encode_logical_imm \
  __CPROVER_requires(width == 32 || width == 64) \
  __CPROVER_assigns(*out._val, g_enc_calls, g_enc_imm, g_enc_width, g_enc_ret) \
  __CPROVER_ensures(__CPROVER_return_value ==> c_logical_sound(__CPROVER_old(imm), __CPROVER_old(width), out._val)) \
  __CPROVER_ensures(c_logical_witness_hits(__CPROVER_old(imm), __CPROVER_old(width)) ==> __CPROVER_return_value) \
  __CPROVER_ensures(g_enc_calls == __CPROVER_old(g_enc_calls) + 1 && g_enc_imm == __CPROVER_old(imm) && g_enc_width == __CPROVER_old(width) && g_enc_ret == __CPROVER_return_value)
#define C_ENC_INIT() (g_enc_calls = 0)
#define CONTRACT_arm_Utils_is_logical_imm \
  __CPROVER_requires(width == 32 || width == 64) \
  __CPROVER_assigns(g_enc_calls, g_enc_imm, g_enc_width, g_enc_ret) \
  __CPROVER_ensures(g_enc_calls == 1 && g_enc_imm == imm && g_enc_width == width && __CPROVER_return_value == g_enc_ret) \
  __CPROVER_ensures(c_logical_witness_hits(imm, width) ==> __CPROVER_return_value)
#endif

#define CONTRACT_arm_Utils_is_add_sub_imm \
  __CPROVER_assigns() \
  __CPROVER_ensures(__CPROVER_return_value == (imm < 4096 || ((imm & 4095) == 0 && (imm >> 12) < 4096)))

#define CONTRACT_arm_Utils_encode_aarch32_imm \
  __CPROVER_requires(__CPROVER_is_fresh(imm_out._val, sizeof(*imm_out._val))) \
  __CPROVER_assigns(*imm_out._val) \
  __CPROVER_ensures(__CPROVER_return_value ==> (*imm_out._val < 4096 && spec_a32_expand_imm(*imm_out._val) == imm)) \
  __CPROVER_ensures(__CPROVER_return_value == spec_a32_imm_encodable(imm))

#define CONTRACT_arm_Utils_is_fp16_imm8 \
  __CPROVER_requires(val <= 0xFFFF) /* a half-precision bit pattern */ \
  __CPROVER_assigns() \
  __CPROVER_ensures(__CPROVER_return_value == spec_is_vfp_imm8(val, 16))
#define CONTRACT_arm_Utils_is_fp32_imm8__u32 \
  __CPROVER_assigns() \
  __CPROVER_ensures(__CPROVER_return_value == spec_is_vfp_imm8(val, 32))
#define CONTRACT_arm_Utils_is_fp64_imm8__u64 \
  __CPROVER_assigns() \
  __CPROVER_ensures(__CPROVER_return_value == spec_is_vfp_imm8(val, 64))
#define CONTRACT_arm_Utils_encode_fp64_to_imm8__u64 \
  __CPROVER_requires(spec_is_vfp_imm8(val, 64)) \
  __CPROVER_assigns() \
  __CPROVER_ensures(__CPROVER_return_value < 256 && spec_vfp_expand_imm8(__CPROVER_return_value, 64) == val)

#define CONTRACT_arm_Utils_is_byte_mask_imm_u64 \
  __CPROVER_assigns() \
  __CPROVER_ensures(__CPROVER_return_value == spec_is_byte_mask(imm))
#define CONTRACT_arm_Utils_encode_imm64_byte_mask_to_imm8 \
  __CPROVER_requires(spec_is_byte_mask(imm)) \
  __CPROVER_assigns() \
  __CPROVER_ensures(__CPROVER_return_value < 256 && spec_expand_byte_mask(__CPROVER_return_value) == imm)

static inline _Bool c_mov_seq_ok(const uint32_t* out, unsigned count, unsigned rd, unsigned x, uint64_t want) {
  uint64_t r = 0;
  return spec_exec_mov_wide(out, count, rd, x, &r) && r == want;
}
#define CONTRACT_a64_encode_mov_sequence_32 \
  __CPROVER_requires(rd <= 31 && x <= 1) \
  __CPROVER_requires(__CPROVER_is_fresh(out, 2 * sizeof(uint32_t))) \
  __CPROVER_assigns(__CPROVER_object_whole(out)) \
  __CPROVER_ensures(__CPROVER_return_value >= 1 && __CPROVER_return_value <= 2) \
  __CPROVER_ensures(c_mov_seq_ok(out, __CPROVER_return_value, rd, x, imm))
#define CONTRACT_a64_encode_mov_sequence_64 \
  __CPROVER_requires(rd <= 31 && x <= 1) \
  __CPROVER_requires(x == 1 || imm <= 0xFFFFFFFFu)  /* the W form is only used for 32-bit immediates */ \
  __CPROVER_requires(__CPROVER_is_fresh(out, 4 * sizeof(uint32_t))) \
  __CPROVER_assigns(__CPROVER_object_whole(out)) \
  __CPROVER_ensures(__CPROVER_return_value >= 1 && __CPROVER_return_value <= 4) \
  __CPROVER_ensures(c_mov_seq_ok(out, __CPROVER_return_value, rd, x, __CPROVER_old(imm)))

#define CONTRACT_a64_encode_lmh \
  __CPROVER_requires(__CPROVER_is_fresh(out._val, sizeof(*out._val))) \
  __CPROVER_assigns(*out._val) \
  __CPROVER_ensures(__CPROVER_return_value == ((size_field == 1 && element_index < 8) || (size_field == 2 && element_index < 4))) \
  __CPROVER_ensures(__CPROVER_return_value ==> (out._val->h <= 1 && out._val->lm <= 3)) \
  __CPROVER_ensures((__CPROVER_return_value && size_field == 1) ==> (((out._val->h << 2) | out._val->lm) == element_index && out._val->max_rm_id == 15)) \
  __CPROVER_ensures((__CPROVER_return_value && size_field == 2) ==> (((out._val->h << 1) | (out._val->lm >> 1)) == element_index && (out._val->lm & 1) == 0 && out._val->max_rm_id == 31))

unsigned nondet_unsigned(void);
#ifndef C_ENC_INIT
#define C_ENC_INIT() ((void)0)
#endif
#define VERIF_GHOST_INIT() (g_N = nondet_unsigned(), g_S = nondet_unsigned(), g_R = nondet_unsigned(), g_imm8 = nondet_unsigned(), C_ENC_INIT())
