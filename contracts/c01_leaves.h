/* Contracts for the x86 byte-emission leaves (property C01, partial): immediates are written little-endian with exactly the
 * requested width, mandatory-prefix / escape / segment bytes are the architectural ones. The buffer is a 16-byte window at the cursor. */
#include "spec/specdefs.h"
#ifdef HAVE_STRUCT_x86_X86BufferWriter
uint8_t g_buf0[16]; uint8_t* g_cur0; size_t g_i;
size_t nondet_size_t(void);
#define VERIF_GHOST_INIT() (g_i = nondet_size_t(), __CPROVER_havoc_object(g_buf0), __CPROVER_havoc_object(&g_cur0))
#define CUR(self) ((self)->__b0._cursor)
static inline _Bool c_wsnap(const struct x86_X86BufferWriter* w) { for (unsigned i = 0; i < 16; i++) if (CUR(w)[i] != g_buf0[i]) return 0; return g_cur0 == CUR(w); }
#define W_PRE(self) \
  __CPROVER_requires(__CPROVER_is_fresh(self, sizeof(*self))) \
  __CPROVER_requires(__CPROVER_is_fresh(CUR(self), 16)) \
  __CPROVER_requires(c_wsnap(self))
#define W_ASSIGNS(self) __CPROVER_assigns(*self, __CPROVER_object_whole(CUR(self)))
/* n bytes little endian at the old cursor, cursor advanced by n, nothing after them changed */
static inline int c_emitted_le(const struct x86_X86BufferWriter* w, uint64_t v, unsigned n) {
  if (CUR(w) != g_cur0 + n) return 1;
  const uint8_t* base = CUR(w) - n;     /* the old cursor (a ghost pointer bound by an equality cannot be dereferenced: CBMC resolves pointers by value sets) */
  if (g_i < n && base[g_i] != (uint8_t)(v >> (8 * g_i))) return 2;
  if (g_i >= n && g_i < 16 && base[g_i] != g_buf0[g_i]) return 3;
  return 0;
}
#define CONTRACT_x86_X86BufferWriter_emit_immediate \
  W_PRE(self) __CPROVER_requires(imm_size == 1 || imm_size == 2 || imm_size == 4 || imm_size == 8) W_ASSIGNS(self) \
  __CPROVER_ensures(c_emitted_le(self, imm_value, imm_size) == 0)
#define CONTRACT_x86_X86BufferWriter_emit_imm_byte_or_dword \
  W_PRE(self) __CPROVER_requires(imm_size == 0 || imm_size == 1 || imm_size == 4) W_ASSIGNS(self) \
  __CPROVER_ensures(c_emitted_le(self, imm_value, imm_size) == 0)
/* mandatory prefix selected by the PP field (asmjit keeps it in bits 21..23 of its internal opcode word: Opcode::kPP_Shift): none, 66, F3, F2, and 9B for the FPU wait forms */
static inline unsigned c_pp_byte(unsigned pp) { return pp == 1 ? 0x66 : pp == 2 ? 0xF3 : pp == 3 ? 0xF2 : pp == 7 ? 0x9B : 0; }
#define CONTRACT_x86_X86BufferWriter_emit_pp \
  W_PRE(self) W_ASSIGNS(self) \
  __CPROVER_requires(((opcode >> 21) & 7) <= 3 || ((opcode >> 21) & 7) == 7)   /* the PP codes Opcode defines: none, 66, F3, F2, 9B */ \
  __CPROVER_ensures(c_emitted_le(self, c_pp_byte((opcode >> 21) & 7), c_pp_byte((opcode >> 21) & 7) ? 1 : 0) == 0 || \
     /* at most one scratch byte at the cursor when nothing is emitted */ \
     (c_pp_byte((opcode >> 21) & 7) == 0 && CUR(self) == g_cur0 && (g_i == 0 || g_i >= 16 || CUR(self)[g_i] == g_buf0[g_i])))
/* segment override prefixes ES CS SS DS FS GS = 26 2E 36 3E 64 65 */
static inline unsigned c_seg_byte(unsigned s) { return s == 1 ? 0x26 : s == 2 ? 0x2E : s == 3 ? 0x36 : s == 4 ? 0x3E : s == 5 ? 0x64 : s == 6 ? 0x65 : 0; }
#define CONTRACT_x86_X86BufferWriter_emit_segment_override \
  W_PRE(self) __CPROVER_requires(segment_id < 7) W_ASSIGNS(self) \
  __CPROVER_ensures(c_seg_byte(segment_id) ? c_emitted_le(self, c_seg_byte(segment_id), 1) == 0 : \
     (CUR(self) == g_cur0 && (g_i == 0 || g_i >= 16 || CUR(self)[g_i] == g_buf0[g_i])))
#endif
