/* Contract for FuncFrame::finalize (property C07, layout part). Intervals are relative to SP after the prolog. */
#include "spec/specdefs.h"
#ifdef HAVE_STRUCT_FuncFrame
struct FuncFrame g_f0;                 /* ghost: entry state (bound by a requires-equality) */
#define VERIF_GHOST_INIT() __CPROVER_havoc_object(&g_f0)
#define ATTR_FP 0x10u
#define ATTR_CALLS 0x20u
#define ATTR_ALIGNED_VEC 0x40u
#define TAG_INVALID 0xFFFFFFFFu
#define C_U32(x) ((uint32_t)(x))   /* enum-class fields when this header is compiled as C++ by the replay */

static inline _Bool c_pow2(uint32_t a) { return a != 0 && (a & (a - 1)) == 0; }
static inline _Bool c_frame_eq(const struct FuncFrame* a, const struct FuncFrame* b) {
  const uint8_t* p = (const uint8_t*)a; const uint8_t* q = (const uint8_t*)b;
  for (unsigned i = 0; i < sizeof(struct FuncFrame); i++) if (p[i] != q[i]) return 0;
  return 1;
}
static inline const struct ArchTraits* c_traits(const struct FuncFrame* f) { return &g_arch_traits[C_U32(f->_arch)]; }
static inline _Bool c_arch_supported(const struct FuncFrame* f) {
  /* architectures with a backend in this build have a populated ArchTraits entry (register types, distinct SP/FP) */
  return C_U32(f->_arch) >= 1 && C_U32(f->_arch) <= 16 && c_traits(f)->_supported_reg_types != 0 && c_traits(f)->_sp_reg_id != c_traits(f)->_fp_reg_id && c_traits(f)->_sp_reg_id < 32 && c_traits(f)->_fp_reg_id < 32 &&
         (c_traits(f)->_link_reg_id < 32 || c_traits(f)->_link_reg_id == 0xFF);
}
static inline uint32_t c_ra_size(const struct FuncFrame* f) { return c_traits(f)->_link_reg_id != 0xFF ? 0 : f->_save_restore_reg_size._data[0]; }
static inline _Bool c_has_da(const struct FuncFrame* f) { return f->_final_stack_alignment >= f->_min_dynamic_alignment; }

/* the states FuncFrame::init + the public setters can produce */
static inline _Bool c_frame_pre(const struct FuncFrame* f) {
  if (!c_arch_supported(f)) return 0;
  for (unsigned g = 0; g < 4; g++) {
    uint8_t s = f->_save_restore_reg_size._data[g], a = f->_save_restore_alignment._data[g];
    if (!(s == 0 || (c_pow2(s) && s <= 64))) return 0;
    if (!(c_pow2(a) && a <= 64)) return 0;
  }
  uint8_t gp = f->_save_restore_reg_size._data[0], vec = f->_save_restore_reg_size._data[1];
  if (!(gp == 4 || gp == 8) || vec < 8) return 0;
  uint8_t n = f->_natural_stack_alignment, c = f->_call_stack_alignment, l = f->_local_stack_alignment, fa = f->_final_stack_alignment;
  if (!c_pow2(n) || !(c == 0 || c_pow2(c)) || !(l == 0 || c_pow2(l))) return 0;
  uint8_t mx = n > c ? n : c; if (l > mx) mx = l;
  if (fa != mx) return 0;                                     /* the invariant every alignment setter maintains */
  if (!c_pow2(f->_min_dynamic_alignment) || f->_min_dynamic_alignment <= n) return 0;
  if (f->_call_stack_size > (1u << 28) || f->_local_stack_size > (1u << 28)) return 0;
  if (!(f->_sa_reg_id == 0xFF || f->_sa_reg_id < 32)) return 0;
  if (f->_preserved_regs._data[0] & (1u << c_traits(f)->_sp_reg_id)) return 0;    /* init() removes SP from the preserved set */
  return 1;
}
static inline uint32_t c_popcnt(uint32_t x) { uint32_t n = 0; for (unsigned i = 0; i < 32; i++) n += (x >> i) & 1; return n; }
static inline uint32_t c_saved(const struct FuncFrame* f, unsigned g) { return f->_dirty_regs._data[g] & f->_preserved_regs._data[g]; }
static inline uint32_t c_align_up(uint32_t v, uint32_t a) { uint32_t r = v % a; return r ? v + (a - r) : v; }
/* bytes needed for the groups saved with push/pop (pp = 1) or with moves (pp = 0) */
static inline uint32_t c_save_area(const struct FuncFrame* f, _Bool pp) {
  uint32_t sum = 0;
  for (unsigned g = 0; g < 4; g++) {
    _Bool has_pp = (C_U32(c_traits(f)->_inst_hints._data[g]) & 2) != 0;        /* InstHints::kPushPop */
    if (has_pp == pp) sum += c_align_up(c_popcnt(c_saved(f, g)) * f->_save_restore_reg_size._data[g], f->_save_restore_alignment._data[g]);
  }
  return sum;
}

#define FVARS(f) uint32_t A = (f)->_final_stack_alignment, gp = (f)->_save_restore_reg_size._data[0], vec = (f)->_save_restore_reg_size._data[1]; \
  uint32_t ra = c_ra_size(f); _Bool has_fp = (C_U32((f)->_attributes) & ATTR_FP) != 0, has_da = c_has_da(f); (void)A; (void)gp; (void)vec; (void)ra; (void)has_fp; (void)has_da
/* F2 save areas have exactly the room the saved registers need */
static inline _Bool c_F2(const struct FuncFrame* f) { return f->_push_pop_save_size == c_save_area(f, 1) && f->_extra_reg_save_size == c_save_area(f, 0); }
/* F3 areas are ordered and disjoint: [0,call) [local) [extra) [DA slot) [push/pop) then the return address */
static inline _Bool c_F3(const struct FuncFrame* f) {
  FVARS(f);
  if (f->_call_stack_size > f->_local_stack_offset) return 0;
  if (f->_local_stack_offset + f->_local_stack_size > f->_extra_reg_save_offset) return 0;
  uint32_t end_extra = f->_extra_reg_save_offset + f->_extra_reg_save_size;
  if (has_da && !has_fp) {
    if (f->_da_offset < end_extra || f->_da_offset + gp > f->_push_pop_save_offset) return 0;
  } else {
    if (f->_da_offset != TAG_INVALID || end_extra > f->_push_pop_save_offset) return 0;
  }
  return f->_push_pop_save_offset + f->_push_pop_save_size == f->_final_stack_size;
}
/* F4 locals are aligned to the function's stack alignment */
static inline _Bool c_F4(const struct FuncFrame* f) { FVARS(f); return f->_local_stack_offset % A == 0; }
/* F5 vector save area aligned when advertised */
static inline _Bool c_F5(const struct FuncFrame* f) {
  FVARS(f);
  if (A >= vec && f->_extra_reg_save_size != 0) return (C_U32(f->_attributes) & ATTR_ALIGNED_VEC) && f->_extra_reg_save_offset % vec == 0;
  return 1;
}
/* F6 whenever the body can observe it (frame has stack, calls, or a link register) SP is aligned after the prolog */
static inline _Bool c_F6(const struct FuncFrame* f) {
  FVARS(f);
  if (f->_push_pop_save_offset != 0 || (C_U32(f->_attributes) & ATTR_CALLS) || ra == 0) return (f->_final_stack_size + ra) % A == 0;
  return 1;
}
/* F7 stack adjustment / stack-argument offsets */
static inline _Bool c_F7(const struct FuncFrame* f) {
  FVARS(f);
  if (has_da) {
    if (f->_stack_adjustment % A != 0 || f->_stack_adjustment < f->_push_pop_save_offset || f->_sa_offset_from_sp != TAG_INVALID) return 0;
    if (f->_sa_reg_id == f->_sp_reg_id) return 0;            /* arguments cannot be addressed through a realigned SP */
  } else {
    if (f->_stack_adjustment != f->_push_pop_save_offset || f->_sa_offset_from_sp != f->_final_stack_size + ra) return 0;
  }
  return f->_sa_offset_from_sa == (has_fp ? ra + gp : ra + f->_push_pop_save_size);
}
static inline _Bool c_frame_regs_ok(const struct FuncFrame* f) {
  const struct ArchTraits* t = c_traits(f);
  _Bool has_fp = (C_U32(f->_attributes) & ATTR_FP) != 0;
  if (f->_sp_reg_id != t->_sp_reg_id) return 0;
  if (has_fp && !(f->_dirty_regs._data[0] & (1u << t->_fp_reg_id))) return 0;
  if (has_fp && t->_link_reg_id != 0xFF && !(f->_dirty_regs._data[0] & (1u << t->_link_reg_id))) return 0;
  if (c_saved(f, 0) & (1u << t->_sp_reg_id)) return 0;       /* SP is never in the saved set */
  if (f->_sa_reg_id != f->_sp_reg_id && !(f->_dirty_regs._data[0] & (1u << f->_sa_reg_id))) return 0;
  return 1;
}
/* everything the caller configured is untouched; dirty masks only grow */
static inline _Bool c_frame_frame(const struct FuncFrame* f, const struct FuncFrame* o) {
  if (C_U32(f->_arch) != C_U32(o->_arch) || f->_call_stack_size != o->_call_stack_size || f->_local_stack_size != o->_local_stack_size) return 0;
  if (f->_natural_stack_alignment != o->_natural_stack_alignment || f->_call_stack_alignment != o->_call_stack_alignment ||
      f->_local_stack_alignment != o->_local_stack_alignment || f->_final_stack_alignment != o->_final_stack_alignment ||
      f->_min_dynamic_alignment != o->_min_dynamic_alignment || f->_red_zone_size != o->_red_zone_size ||
      f->_spill_zone_size != o->_spill_zone_size || f->_callee_stack_cleanup != o->_callee_stack_cleanup) return 0;
  if ((C_U32(f->_attributes) & ~ATTR_ALIGNED_VEC) != (C_U32(o->_attributes) & ~ATTR_ALIGNED_VEC)) return 0;
  for (unsigned g = 0; g < 4; g++) {
    if (f->_preserved_regs._data[g] != o->_preserved_regs._data[g] || f->_unavailable_regs._data[g] != o->_unavailable_regs._data[g]) return 0;
    if (f->_save_restore_reg_size._data[g] != o->_save_restore_reg_size._data[g] || f->_save_restore_alignment._data[g] != o->_save_restore_alignment._data[g]) return 0;
    if ((f->_dirty_regs._data[g] & o->_dirty_regs._data[g]) != o->_dirty_regs._data[g]) return 0;
    if (g != 0 && f->_dirty_regs._data[g] != o->_dirty_regs._data[g]) return 0;
  }
  return 1;
}

#define CONTRACT_FuncFrame_finalize \
  __CPROVER_requires(__CPROVER_is_fresh(self, sizeof(*self))) \
  __CPROVER_requires(c_frame_pre(self)) \
  __CPROVER_requires(c_frame_eq(self, &g_f0)) \
  __CPROVER_assigns(*self) \
  __CPROVER_ensures(__CPROVER_return_value == 0) \
  __CPROVER_ensures(c_F2(self)) \
  __CPROVER_ensures(c_F3(self)) \
  __CPROVER_ensures(c_F4(self)) \
  __CPROVER_ensures(c_F5(self)) \
  __CPROVER_ensures(c_F6(self)) \
  __CPROVER_ensures(c_F7(self)) \
  __CPROVER_ensures(c_frame_regs_ok(self)) \
  __CPROVER_ensures(c_frame_frame(self, &g_f0))
#endif
