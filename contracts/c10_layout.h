/* Contracts for CodeHolder::flatten / code_size (property C10). Section count bounded by VERIF_NSEC (stated bound). */
#include "spec/layout.h"
#ifndef VERIF_NSEC
#define VERIF_NSEC 3
#endif
unsigned g_j, g_k;                       /* ghost witness section indices */
unsigned nondet_unsigned(void);
#define VERIF_GHOST_INIT() (g_j = nondet_unsigned(), g_k = nondet_unsigned(), __CPROVER_havoc_object(g_real), __CPROVER_havoc_object(g_vs), __CPROVER_havoc_object(g_off), __CPROVER_havoc_object(g_align), __CPROVER_havoc_object(g_buf))

#define SBO(self) ((self)->_sections_by_order.__b0)
#define SEC(self, i) (((struct Section**)SBO(self)._data)[i])
#define SEC_FRESH(self, i) __CPROVER_requires(__CPROVER_is_fresh(SEC(self, i), sizeof(struct Section)))
#define SEC_OK(self, i) __CPROVER_requires(spec_is_pow2_u32(SEC(self, i)->_alignment))

#if VERIF_NSEC == 3
#define ALL_SECS(M, self) M(self, 0) M(self, 1) M(self, 2)
#define SEC_ASSIGNS(self) __CPROVER_object_whole(SEC(self, 0)), __CPROVER_object_whole(SEC(self, 1)), __CPROVER_object_whole(SEC(self, 2))
#elif VERIF_NSEC == 6
#define ALL_SECS(M, self) M(self, 0) M(self, 1) M(self, 2) M(self, 3) M(self, 4) M(self, 5)
#define SEC_ASSIGNS(self) __CPROVER_object_whole(SEC(self, 0)), __CPROVER_object_whole(SEC(self, 1)), __CPROVER_object_whole(SEC(self, 2)), \
   __CPROVER_object_whole(SEC(self, 3)), __CPROVER_object_whole(SEC(self, 4)), __CPROVER_object_whole(SEC(self, 5))
#endif

/* ghost copies of the entry state, bound by requires-equalities (history of call expressions is not supported) */
uint64_t g_real[SPEC_MAX_SECTIONS], g_vs[SPEC_MAX_SECTIONS], g_off[SPEC_MAX_SECTIONS], g_buf[SPEC_MAX_SECTIONS];
uint32_t g_align[SPEC_MAX_SECTIONS];

#ifdef HAVE_STRUCT_CodeHolder
static inline uint64_t c_real(const struct Section* s) { return s->_virtual_size > s->_buffer._size ? s->_virtual_size : s->_buffer._size; }
static inline _Bool c_snapshot(const struct CodeHolder* self) {
  for (unsigned i = 0; i < VERIF_NSEC; i++) {
    const struct Section* s = SEC(self, i);
    if (g_real[i] != c_real(s) || g_vs[i] != s->_virtual_size || g_off[i] != s->_offset || g_align[i] != s->_alignment || g_buf[i] != s->_buffer._size) return 0;
  }
  return 1;
}
static inline struct spec_layout c_expect(const struct CodeHolder* self) { return spec_layout_compute(SBO(self)._size, g_real, g_align); }
#endif

#define HOLDER_PRE(self) \
  __CPROVER_requires(__CPROVER_is_fresh(self, sizeof(*self))) \
  __CPROVER_requires(SBO(self)._size <= VERIF_NSEC) \
  __CPROVER_requires(__CPROVER_is_fresh(SBO(self)._data, VERIF_NSEC * sizeof(struct Section*))) \
  ALL_SECS(SEC_FRESH, self) ALL_SECS(SEC_OK, self) \
  __CPROVER_requires(c_snapshot(self))

#define NSECS(self) (SBO(self)._size)
#define J_LT_K(self) (g_j < g_k && g_k < NSECS(self))

#define CONTRACT_CodeHolder_flatten \
  HOLDER_PRE(self) \
  __CPROVER_assigns(SEC_ASSIGNS(self)) \
  __CPROVER_ensures(__CPROVER_return_value == 0 || __CPROVER_return_value == 9 /* kTooLarge */) \
  /* L1 ordered, non-overlapping: section j ends before any later section k begins */ \
  __CPROVER_ensures((__CPROVER_return_value == 0 && J_LT_K(self)) ==> \
     (SEC(self, g_j)->_offset <= SEC(self, g_k)->_offset && g_real[g_j] <= SEC(self, g_k)->_offset - SEC(self, g_j)->_offset)) \
  /* L2 every non-empty section starts at a multiple of its alignment */ \
  __CPROVER_ensures((__CPROVER_return_value == 0 && g_k < NSECS(self) && g_real[g_k] != 0) ==> \
     (SEC(self, g_k)->_offset & (uint64_t)(SEC(self, g_k)->_alignment - 1)) == 0) \
  /* L3 virtual size of j covers exactly the distance to its successor (and is never smaller than its real size) */ \
  __CPROVER_ensures((__CPROVER_return_value == 0 && J_LT_K(self) && g_k == g_j + 1) ==> \
     (SEC(self, g_j)->_virtual_size == SEC(self, g_k)->_offset - SEC(self, g_j)->_offset && SEC(self, g_j)->_virtual_size >= g_real[g_j])) \
  /* L4 the last section keeps its virtual size; the first starts at 0 */ \
  __CPROVER_ensures((__CPROVER_return_value == 0 && g_k < NSECS(self) && g_k + 1 == NSECS(self)) ==> SEC(self, g_k)->_virtual_size == g_vs[g_k]) \
  __CPROVER_ensures((__CPROVER_return_value == 0 && NSECS(self) > 0) ==> SEC(self, 0)->_offset == 0) \
  /* L5 failure changes nothing */ \
  __CPROVER_ensures((__CPROVER_return_value != 0 && g_k < NSECS(self)) ==> \
     (SEC(self, g_k)->_virtual_size == g_vs[g_k] && SEC(self, g_k)->_offset == g_off[g_k])) \
  /* L6 exact agreement with the reference layout; failure exactly on 64-bit overflow */ \
  __CPROVER_ensures((__CPROVER_return_value != 0) == c_expect(self).overflow) \
  __CPROVER_ensures((__CPROVER_return_value == 0 && g_k < NSECS(self)) ==> SEC(self, g_k)->_offset == c_expect(self).off[g_k]) \
  /* L7 alignment, buffers and the section table itself are not touched */ \
  __CPROVER_ensures(g_k < VERIF_NSEC ==> SEC(self, g_k)->_alignment == g_align[g_k])

#define CONTRACT_CodeHolder_code_size \
  HOLDER_PRE(self) \
  __CPROVER_assigns() \
  /* S1 SIZE_MAX exactly when the layout does not fit in 64 bits, otherwise the end of the last section */ \
  __CPROVER_ensures(c_expect(self).overflow ==> __CPROVER_return_value == UINT64_MAX) \
  __CPROVER_ensures(!c_expect(self).overflow ==> __CPROVER_return_value == c_expect(self).end)
