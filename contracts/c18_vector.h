/* Contracts for ArenaVectorBase growth/resize (properties C18, C15): a vector behaves like the textbook dynamic array -
 * reserve never loses or reorders elements, the capacity it reports is really backed by the allocation it received, a failed
 * allocation (or an impossible size) leaves the vector untouched, resize zero-fills exactly the new tail, and the buffer
 * that is given back to the arena is given back with the size it was obtained with.
 *
 * Arena::alloc_reusable / free_reusable are REPLACED by the contracts below (what unit c18.arena.alloc_reusable proves about
 * the allocator: NULL, or a block of at least the requested size whose real size is reported through `allocated_size`).
 * Pre-state buffers are objects of VERIF_VBYTES bytes; the requested element count is unbounded (any size_t). */
#include "spec/specdefs.h"
#ifdef HAVE_STRUCT_ArenaVectorBase
#ifndef VERIF_VBYTES
#define VERIF_VBYTES 48
#endif
#ifndef VERIF_NEWMAX
#define VERIF_NEWMAX 256             /* size of the object standing for a new buffer (>= everything the code writes into it here: the old
                                        contents, <= VERIF_VBYTES, and the zero-filled tail of a resize, <= VERIF_RESIZE_MAX << 4); the size the
                                        allocator *reports* is unbounded */
#endif
uint8_t g_vold[VERIF_VBYTES];        /* ghost: buffer contents on entry */
void* g_vdata0; uint32_t g_vsize0, g_vcap0;
size_t g_vi;                         /* ghost byte index */
void* g_freed_ptr; uint64_t g_freed_size; uint32_t g_freed_calls;   /* ghost: what was handed to Arena::free_reusable */
uint64_t g_alloc_req, g_alloc_got; uint32_t g_alloc_calls;          /* ghost: what Arena::alloc_reusable was asked for / gave */
size_t nondet_size_t(void);
#define VERIF_GHOST_INIT() (g_vi = nondet_size_t(), __CPROVER_havoc_object(g_vold), __CPROVER_havoc_object(&g_vdata0), __CPROVER_havoc_object(&g_vsize0), \
   __CPROVER_havoc_object(&g_vcap0), g_freed_ptr = NULL, g_freed_size = 0, g_freed_calls = 0, g_alloc_req = 0, g_alloc_got = 0, g_alloc_calls = 0)

#ifdef VERIF_ITEM_POW2
#define V_BYTES(count, isz) ((uint64_t)(count) << (isz).n)
#ifndef VERIF_MAXLOG2
#define VERIF_MAXLOG2 6
#endif
#define V_ISZ_OK(isz) ((isz).n <= VERIF_MAXLOG2)
#else
#ifndef VERIF_ITEMSZ
#define VERIF_ITEMSZ 12
#endif
#define V_BYTES(count, isz) ((uint64_t)(count) * VERIF_ITEMSZ)
#define V_ISZ_OK(isz) ((isz).n == VERIF_ITEMSZ)
#endif

static inline _Bool c_vec_snap(const struct ArenaVectorBase* v) {
  if (g_vdata0 != v->_data || g_vsize0 != v->_size || g_vcap0 != v->_capacity) return 0;
  if (v->_data != NULL) for (unsigned i = 0; i < VERIF_VBYTES; i++) if (g_vold[i] != ((const uint8_t*)v->_data)[i]) return 0;
  return 1;
}
/* pre-state: empty (NULL,0,0) or a buffer object of VERIF_VBYTES bytes holding capacity items, size <= capacity */
#define VEC_PRE(self, isz) \
  __CPROVER_requires(__CPROVER_is_fresh(self, sizeof(*self))) \
  __CPROVER_requires(__CPROVER_is_fresh(arena, 112))   /* the arena is opaque here: only the replaced allocator calls touch it */ \
  __CPROVER_requires(V_ISZ_OK(isz)) \
  __CPROVER_requires(self->_data == NULL ? (self->_size == 0 && self->_capacity == 0) : \
     (__CPROVER_is_fresh(self->_data, VERIF_VBYTES) && self->_capacity >= 1 && V_BYTES(self->_capacity, isz) <= VERIF_VBYTES && self->_size <= self->_capacity)) \
  __CPROVER_requires(c_vec_snap(self))

/* common frame of all growth functions */
#define VEC_FRAME(self) \
  __CPROVER_assigns(*self, __CPROVER_object_whole(arena), g_freed_ptr, g_freed_size, g_freed_calls, g_alloc_req, g_alloc_got, g_alloc_calls) \
  __CPROVER_assigns(self->_data != NULL: __CPROVER_object_whole(self->_data)) \
  __CPROVER_frees(self->_data)

/* unchanged vector (failure, or nothing to do) */
static inline int c_vec_same(const struct ArenaVectorBase* v) {
  if (v->_data != g_vdata0 || v->_size != g_vsize0 || v->_capacity != g_vcap0) return 1;
  if (g_freed_calls != 0) return 2;
  if (v->_data != NULL && g_vi < VERIF_VBYTES && ((const uint8_t*)v->_data)[g_vi] != g_vold[g_vi]) return 3;
  return 0;
}
/* post-state after a successful reserve of `want` items; `isz_bytes_per(count)` is V_BYTES */
static inline int c_vec_reserved(const struct ArenaVectorBase* v, uint64_t want, uint64_t old_bytes, uint64_t cap_bytes_now, uint64_t old_cap_bytes) {
  if (v->_size != g_vsize0) return 10;                                   /* element count untouched */
  if ((uint64_t)v->_capacity < want) return 11;                          /* room for what was asked */
  if (g_vcap0 >= want) return c_vec_same(v);                             /* already enough room: nothing happens */
  if (g_alloc_calls != 1 || v->_data == NULL || v->_data == g_vdata0) return 12;     /* exactly one new buffer */
  if (cap_bytes_now > g_alloc_got) return 13;                            /* the reported capacity is backed by the block received */
  if (g_vi < old_bytes && ((const uint8_t*)v->_data)[g_vi] != g_vold[g_vi]) return 14;   /* every old element kept, in order */
  if (g_vdata0 != NULL && (g_freed_calls != 1 || g_freed_ptr != g_vdata0 || g_freed_size != old_cap_bytes)) return 15;   /* old buffer returned once, with its real size */
  if (g_vdata0 == NULL && g_freed_calls != 0) return 16;
  return 0;
}
/* want = item count required; failure is only allowed when more room was needed */
static inline int c_vec_failed(const struct ArenaVectorBase* v, uint32_t err, uint64_t want, _Bool want_overflowed) {
  if (err != 1 /* kOutOfMemory */) return 20;
  if (!want_overflowed && g_vcap0 >= want) return 21;                    /* no spurious failure */
  return c_vec_same(v) ? 22 + c_vec_same(v) : 0;
}

/* size the arena really hands out for a request: the slot class 16 << k for requests <= 2048 bytes, else the request itself */
static inline uint64_t c_arena_granted(uint64_t size) {
  uint64_t s = 16;
  for (unsigned k = 0; k < 8; k++, s <<= 1) if (size <= s) return s;
  return size;
}
#define CONTRACT_Arena_alloc_reusable_void__u64_Out_u64 \
  __CPROVER_requires(size >= 1) \
  __CPROVER_assigns(__CPROVER_object_whole(self), *allocated_size._val, g_alloc_req, g_alloc_got, g_alloc_calls) \
  __CPROVER_ensures(g_alloc_calls == __CPROVER_old(g_alloc_calls) + 1 && g_alloc_req == size) \
  __CPROVER_ensures(__CPROVER_return_value == NULL || (*allocated_size._val == c_arena_granted(size) && g_alloc_got == *allocated_size._val)) \
  __CPROVER_ensures(__CPROVER_return_value == NULL || __CPROVER_is_fresh(__CPROVER_return_value, VERIF_NEWMAX))

#define CONTRACT_Arena_free_reusable \
  __CPROVER_requires(p != NULL && size >= 1) \
  __CPROVER_assigns(__CPROVER_object_whole(self), g_freed_ptr, g_freed_size, g_freed_calls, __CPROVER_object_whole(p)) \
  __CPROVER_frees(p) \
  __CPROVER_ensures(g_freed_calls == __CPROVER_old(g_freed_calls) + 1 && g_freed_ptr == p && g_freed_size == size)

#define OLD_BYTES(isz) V_BYTES(g_vsize0, isz)
#define OLD_CAP_BYTES(isz) V_BYTES(g_vcap0, isz)

/* reserve_fit / reserve_grow: make room for n items */
#define RESERVE_CONTRACT(self, isz) \
  VEC_PRE(self, isz) VEC_FRAME(self) \
  __CPROVER_ensures(__CPROVER_return_value == 0 ? c_vec_reserved(self, n, OLD_BYTES(isz), V_BYTES(self->_capacity, isz), OLD_CAP_BYTES(isz)) == 0 \
                                                : c_vec_failed(self, __CPROVER_return_value, n, 0) == 0)
/* reserve_additional: make room for size + n items */
#define ADDITIONAL_CONTRACT(self, isz) \
  VEC_PRE(self, isz) VEC_FRAME(self) \
  __CPROVER_ensures(__CPROVER_return_value == 0 ? (n <= UINT64_MAX - g_vsize0 && c_vec_reserved(self, (uint64_t)g_vsize0 + n, OLD_BYTES(isz), V_BYTES(self->_capacity, isz), OLD_CAP_BYTES(isz)) == 0) \
                                                : c_vec_failed(self, __CPROVER_return_value, (uint64_t)g_vsize0 + n, n > UINT64_MAX - g_vsize0) == 0)

/* resize: size becomes n; new tail zero-filled; kept prefix unchanged */
static inline int c_vec_resized(const struct ArenaVectorBase* v, uint64_t n, uint64_t old_bytes, uint64_t new_bytes, uint64_t cap_bytes_now, uint64_t old_cap_bytes) {
  if ((uint64_t)v->_size != n) return 30;
  if ((uint64_t)v->_capacity < n) return 31;
  if (n > 0 && v->_data == NULL) return 32;
  if (g_vcap0 >= n) {                                                     /* in place */
    if (v->_data != g_vdata0 || v->_capacity != g_vcap0 || g_freed_calls != 0 || g_alloc_calls != 0) return 33;
  } else {
    if (g_alloc_calls != 1 || v->_data == g_vdata0) return 34;
    if (cap_bytes_now > g_alloc_got) return 35;
    if (g_vdata0 != NULL && (g_freed_calls != 1 || g_freed_ptr != g_vdata0 || g_freed_size != old_cap_bytes)) return 36;
  }
  uint64_t keep = old_bytes < new_bytes ? old_bytes : new_bytes;
  if (g_vi < keep && ((const uint8_t*)v->_data)[g_vi] != g_vold[g_vi]) return 37;            /* surviving elements unchanged */
  if (g_vi >= old_bytes && g_vi < new_bytes && ((const uint8_t*)v->_data)[g_vi] != 0) return 38;   /* new elements are zero */
  return 0;
}
#ifndef VERIF_RESIZE_MAX
#define VERIF_RESIZE_MAX 8           /* resize target (items) for which the zero-fill is materialised */
#endif
#define RESIZE_CONTRACT(self, isz) \
  VEC_PRE(self, isz) VEC_FRAME(self) \
  __CPROVER_requires(n <= VERIF_RESIZE_MAX || n >= ((uint64_t)1 << 32) - 1) \
  __CPROVER_ensures(__CPROVER_return_value == 0 ? c_vec_resized(self, n, OLD_BYTES(isz), V_BYTES(n, isz), V_BYTES(self->_capacity, isz), OLD_CAP_BYTES(isz)) == 0 \
                                                : c_vec_failed(self, __CPROVER_return_value, n, 0) == 0)

#ifdef VERIF_ITEM_POW2
#define CONTRACT_ArenaVectorBase__reserve_fit__Arena_r_u64_ArenaVectorBase_ItemSize_true RESERVE_CONTRACT(self, item_size)
#define CONTRACT_ArenaVectorBase__reserve_grow__Arena_r_u64_ArenaVectorBase_ItemSize_true RESERVE_CONTRACT(self, item_size)
#define CONTRACT_ArenaVectorBase__reserve_additional__Arena_r_u64_ArenaVectorBase_ItemSize_true ADDITIONAL_CONTRACT(self, item_size)
#define CONTRACT_ArenaVectorBase__resize_fit__Arena_r_u64_ArenaVectorBase_ItemSize_true RESIZE_CONTRACT(self, item_size)
#define CONTRACT_ArenaVectorBase__resize_grow__Arena_r_u64_ArenaVectorBase_ItemSize_true RESIZE_CONTRACT(self, item_size)
#else
#define CONTRACT_ArenaVectorBase__reserve_fit__Arena_r_u64_ArenaVectorBase_ItemSize_false RESERVE_CONTRACT(self, item_size)
#define CONTRACT_ArenaVectorBase__reserve_grow__Arena_r_u64_ArenaVectorBase_ItemSize_false RESERVE_CONTRACT(self, item_size)
#define CONTRACT_ArenaVectorBase__reserve_additional__Arena_r_u64_ArenaVectorBase_ItemSize_false ADDITIONAL_CONTRACT(self, item_size)
#define CONTRACT_ArenaVectorBase__resize_fit__Arena_r_u64_ArenaVectorBase_ItemSize_false RESIZE_CONTRACT(self, item_size)
#define CONTRACT_ArenaVectorBase__resize_grow__Arena_r_u64_ArenaVectorBase_ItemSize_false RESIZE_CONTRACT(self, item_size)
#endif
#endif
