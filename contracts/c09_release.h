/* Contracts for JitAllocator::release and JitAllocator::query (property C09, layer 3): release gives back exactly the live
 * allocation that starts at `rx` (through mark_released_area, whose precondition - one live allocation - is asserted at the call),
 * decrements the allocation count, pattern-fills exactly that memory in the writable view, and deletes an emptied block exactly
 * when the pool already retains an empty block or immediate release is configured (otherwise it counts it as the retained one);
 * NULL and pointers outside every block are rejected without change. query reports exactly the live allocation starting at `rx`
 * (both views, byte size, owning block) and rejects pointers to free granules and foreign pointers.
 * The address tree is abstracted: ArenaTree::get returns the block whose executable view contains the pointer (ASSUMED stub).
 * `rx` is the start of a live allocation, a free granule of the block, a pointer outside every block, or NULL (ghost g_kind). */
#include "contracts/c09_shrink.h"
#if defined(HAVE_STRUCT_JitAllocatorBlock) && defined(HAVE_STRUCT_JitAllocatorPrivateImpl) && defined(HAVE_STRUCT_JitAllocator)
uint8_t g_kind;                               /* ghost: 0 NULL, 1 foreign pointer, 2 start of the live allocation [g_as, g_ae), 3 free granule g_as of the block */
struct JitAllocatorBlock* g_blk;              /* ghost: the block */
uint64_t g_count0; uint8_t g_empty0; uint32_t g_rm_calls, g_del_calls; struct JitAllocatorBlock *g_rm_blk, *g_del_blk;
#undef VERIF_GHOST_INIT
#define VERIF_GHOST_INIT() (g_w = nondet_size_t(), g_ra = nondet_u32(), g_rb = nondet_u32(), __CPROVER_havoc_object(&g_b0), \
   __CPROVER_havoc_object(&g_p0), __CPROVER_havoc_object(g_used0), __CPROVER_havoc_object(g_stop0), __CPROVER_havoc_object(&g_as), __CPROVER_havoc_object(&g_ae), \
   __CPROVER_havoc_object(&g_dual), __CPROVER_havoc_object(&g_rw0), __CPROVER_havoc_object(&g_rx0), g_fill_calls = 0, g_fill_off = 0, g_fill_size = 0, g_fill_pat = 0, g_fill_in_rw = 0, \
   __CPROVER_havoc_object(&g_kind), __CPROVER_havoc_object(&g_blk), __CPROVER_havoc_object(&g_count0), __CPROVER_havoc_object(&g_empty0), g_rm_calls = 0, g_del_calls = 0, g_rm_blk = NULL, g_del_blk = NULL)
#define IMPL(self) ((struct JitAllocatorPrivateImpl*)(self)->_impl)

/* ASSUMED model of the address tree lookup, as a C stub: the block whose executable view contains the pointer, else NULL. (As a replaced
 * contract - `ensures(pointer_in_range(g_blk, return_value, g_blk))` - this made CBMC's propositional conversion run out of memory: > 28 GB,
 * growing with the size of the mapping object; with the stub the units take seconds.) */
struct JitAllocatorBlock *ArenaTree_JitAllocatorBlock_get_u8_p_Support_Compare_Support_SortOrder_kAscending(struct ArenaTree_JitAllocatorBlock *self, uint8_t **key, struct Support_Compare_Support_SortOrder_kAscending *cmp) {
  return __CPROVER_same_object(*key, g_rx0) ? g_blk : (struct JitAllocatorBlock*)0;
}
#define CONTRACT_JitAllocatorImpl_removeBlock \
  __CPROVER_assigns(g_rm_calls, g_rm_blk) __CPROVER_ensures(g_rm_calls == __CPROVER_old(g_rm_calls) + 1 && g_rm_blk == block)
#define CONTRACT_JitAllocatorImpl_deleteBlock \
  __CPROVER_requires(g_rm_calls == g_del_calls + 1 && g_rm_blk == block)   /* a block is unlinked before it is deleted */ \
  __CPROVER_assigns(g_del_calls, g_del_blk) __CPROVER_ensures(g_del_calls == __CPROVER_old(g_del_calls) + 1 && g_del_blk == block)

static inline _Bool c_rel_state(const struct JitAllocator* self, const void* rx) {
  const struct JitAllocatorBlock* b = g_blk;
  const struct JitAllocatorPool* p = b->_pool;
  if (!(p->granularity_log2 >= 6 && p->granularity_log2 <= 8 && p->granularity == (1u << p->granularity_log2))) return 0;
  if (b->_area_size > 64u * VERIF_W || b->_area_size < 1) return 0;
  if (g_kind > 3) return 0;
  if (g_kind == 2 && !c_live_run(b, g_as, g_ae)) return 0;
  if (g_kind == 3 && !(g_as < b->_area_size && !spec_bit(b->_used_bit_vector, g_as))) return 0;
  if (g_kind >= 2 && (!__CPROVER_same_object(rx, g_rx0) || __CPROVER_POINTER_OFFSET(rx) != (uint64_t)g_as * p->granularity)) return 0;
  return IMPL(self)->allocation_count == g_count0 && g_count0 >= 1 && p->empty_block_count == g_empty0;
}
static inline int c_unchanged(const struct JitAllocator* self) {
  const struct JitAllocatorBlock* b = g_blk;
  if (IMPL(self)->allocation_count != g_count0 || b->_area_used != g_b0._area_used || b->_flags != g_b0._flags || b->_pool->empty_block_count != g_empty0) return 1;
  if (g_w < VERIF_W && (b->_used_bit_vector[g_w] != g_used0[g_w] || b->_stop_bit_vector[g_w] != g_stop0[g_w])) return 1;
  return (g_fill_calls == 0 && g_rm_calls == 0 && g_del_calls == 0) ? 0 : 1;
}
static inline int c_release_post(const struct JitAllocator* self, uint32_t ret) {
  const struct JitAllocatorBlock* b = g_blk;
  if (g_kind == 0) return (ret == 2 /* kInvalidArgument */ && !c_unchanged(self)) ? 0 : 1;
  if (g_kind == 1) return (ret == 3 /* kInvalidState */ && !c_unchanged(self)) ? 0 : 2;     /* L1 foreign pointers are rejected */
  uint32_t gran = g_p0.granularity, n = g_ae - g_as;
  if (ret != 0) return 3;
  if (IMPL(self)->allocation_count != g_count0 - 1) return 4;                                /* L2 one allocation less */
  if (b->_area_used != g_b0._area_used - n) return 5;                                        /* L3 exactly its granules (by mark_released_area's contract) */
  if (g_w < VERIF_W && b->_used_bit_vector[g_w] != (g_used0[g_w] & ~spec_range_mask64(g_w, g_as, n))) return 6;
  if ((((const struct JitAllocator_Impl*)IMPL(self))->options & 4u) != 0) {                   /* L4 the fill covers exactly the memory released */
    if (g_fill_calls != 1 || !g_fill_in_rw || g_fill_off != (uint64_t)g_as * gran || g_fill_size != (uint64_t)n * gran) return 7;
    if (g_fill_pat != ((const struct JitAllocator_Impl*)IMPL(self))->fill_pattern) return 8;
  } else if (g_fill_calls != 0) return 9;
  /* L5 retention policy: an emptied block is deleted iff the pool already retains one or immediate release is configured */
  _Bool empty_now = (b->_flags & F_EMPTY) != 0;
  _Bool immediate = (((const struct JitAllocator_Impl*)IMPL(self))->options & 8u) != 0;     /* JitAllocatorOptions::kImmediateRelease */
  if (empty_now && (g_empty0 != 0 || immediate)) { if (g_rm_calls != 1 || g_del_calls != 1 || g_del_blk != g_blk) return 10; if (b->_pool->empty_block_count != g_empty0) return 11; }
  else { if (g_rm_calls != 0 || g_del_calls != 0) return 12; if (b->_pool->empty_block_count != g_empty0 + (empty_now ? 1 : 0)) return 13; }
  return 0;
}
#define ALLOC_STATE_PRE(self) \
  __CPROVER_requires(__CPROVER_is_fresh(self, sizeof(*self))) \
  __CPROVER_requires(__CPROVER_is_fresh(self->_impl, sizeof(struct JitAllocatorPrivateImpl))) \
  __CPROVER_requires(__CPROVER_is_fresh(g_blk, sizeof(struct JitAllocatorBlock))) \
  __CPROVER_requires(__CPROVER_is_fresh(g_blk->_pool, sizeof(struct JitAllocatorPool))) \
  __CPROVER_requires(__CPROVER_is_fresh(g_blk->_used_bit_vector, VERIF_W * sizeof(uint64_t))) \
  __CPROVER_requires(__CPROVER_is_fresh(g_blk->_stop_bit_vector, VERIF_W * sizeof(uint64_t))) \
  __CPROVER_requires(__CPROVER_is_fresh(g_blk->_mapping.rw, MAPB)) \
  __CPROVER_requires(g_dual ? __CPROVER_is_fresh(g_blk->_mapping.rx, MAPB) : PINS(g_blk->_mapping.rx, g_blk->_mapping.rw)) \
  __CPROVER_requires(g_rw0 == (uint8_t*)g_blk->_mapping.rw && g_rx0 == (uint8_t*)g_blk->_mapping.rx) \
  __CPROVER_requires(g_kind == 0 ? rx == NULL : g_kind == 1 ? __CPROVER_is_fresh(rx, 1) : __CPROVER_pointer_in_range_dfcc(g_blk->_mapping.rx, rx, (uint8_t*)g_blk->_mapping.rx + (MAPB - 1))) \
  __CPROVER_requires(c_block_snap(g_blk) && c_wf_block(g_blk) && c_rel_state(self, rx))
#define CONTRACT_JitAllocator_release \
  ALLOC_STATE_PRE(self) \
  __CPROVER_requires(g_kind != 3)      /* releasing a pointer that is not a live allocation (double release) is outside the contract */ \
  __CPROVER_assigns(*IMPL(self), g_blk->_flags, g_blk->_area_used, g_blk->_largest_unused_area, g_blk->_search_start, g_blk->_search_end, \
                    __CPROVER_object_whole(g_blk->_pool), __CPROVER_object_whole(g_blk->_used_bit_vector), __CPROVER_object_whole(g_blk->_stop_bit_vector), \
                    g_fill_calls, g_fill_off, g_fill_size, g_fill_pat, g_fill_in_rw, g_rm_calls, g_rm_blk, g_del_calls, g_del_blk) \
  __CPROVER_ensures(c_wf_code(g_blk) == 0) \
  __CPROVER_ensures(c_release_post(self, __CPROVER_return_value) == 0)

#ifdef HAVE_STRUCT_JitAllocator_Span
static inline int c_query_post(const struct JitAllocator* self, const struct JitAllocator_Span* out, uint32_t ret) {
  if (c_unchanged(self)) return 1;                                                          /* Q0 query changes nothing */
  if (g_kind != 2) {                                                                         /* Q1 not a live allocation: rejected, empty span */
    if (ret != 2 /* kInvalidArgument */) return 2;
    return (out->_rx == NULL && out->_rw == NULL && out->_size == 0 && out->_block == NULL) ? 0 : 3;
  }
  uint32_t gran = g_p0.granularity;
  if (ret != 0) return 4;
  if (!__CPROVER_same_object(out->_rx, g_rx0) || __CPROVER_POINTER_OFFSET(out->_rx) != (uint64_t)g_as * gran) return 5;   /* Q2 both views of exactly this allocation */
  if (!__CPROVER_same_object(out->_rw, g_rw0) || __CPROVER_POINTER_OFFSET(out->_rw) != (uint64_t)g_as * gran) return 6;
  if (out->_size != (uint64_t)(g_ae - g_as) * gran) return 7;
  return out->_block == (void*)g_blk ? 0 : 8;
}
#define CONTRACT_JitAllocator_query \
  ALLOC_STATE_PRE(self) \
  __CPROVER_requires(__CPROVER_is_fresh(out._val, sizeof(struct JitAllocator_Span))) \
  __CPROVER_assigns(*out._val) \
  __CPROVER_ensures(c_query_post(self, out._val, __CPROVER_return_value) == 0)
#endif
#endif
