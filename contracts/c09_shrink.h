/* Contract for JitAllocatorImpl_shrink (property C09, layer 3 - the shrink path): the span keeps its start and at least new_size
 * bytes, exactly the granules behind the kept part are given back (through mark_shrunk_area, whose precondition - "this is the tail
 * of one live allocation" - is asserted at the call), the memory that is pattern-filled is exactly the part given back, in the
 * writable view of the same block, and a size that is not smaller-or-equal than what the span holds is rejected without change.
 * mark_shrunk_area is REPLACED by its contract (unit c09.block.mark_shrunk_area); fill_pattern, the lock and the W^X scope by the
 * contracts below. Block bit vectors bounded by VERIF_W words. */
#include "contracts/c09_block.h"
#if defined(HAVE_STRUCT_JitAllocatorBlock) && defined(HAVE_STRUCT_JitAllocatorPrivateImpl)
#define MAPB (64u * VERIF_W * 256u)          /* bytes of a block mapping at the largest granularity */
uint32_t g_as, g_ae;                          /* ghost: the live allocation [g_as, g_ae) the span designates */
uint8_t g_dual;                               /* ghost: dual mapping (rx and rw are different views)? */
uint8_t *g_rw0, *g_rx0;                       /* ghost: the two views of the block */
uint64_t g_span_size0; uint32_t g_fill_calls; uint64_t g_fill_off, g_fill_size; uint32_t g_fill_pat; uint8_t g_fill_in_rw;
#undef VERIF_GHOST_INIT
#define VERIF_GHOST_INIT() (g_w = nondet_size_t(), g_ra = nondet_u32(), g_rb = nondet_u32(), __CPROVER_havoc_object(&g_b0), \
   __CPROVER_havoc_object(&g_p0), __CPROVER_havoc_object(g_used0), __CPROVER_havoc_object(g_stop0), __CPROVER_havoc_object(&g_as), __CPROVER_havoc_object(&g_ae), \
   __CPROVER_havoc_object(&g_dual), __CPROVER_havoc_object(&g_rw0), __CPROVER_havoc_object(&g_rx0), __CPROVER_havoc_object(&g_span_size0), g_fill_calls = 0, g_fill_off = 0, g_fill_size = 0, g_fill_pat = 0, g_fill_in_rw = 0)
#define BLK(span) ((struct JitAllocatorBlock*)(span)->_block)
#define PINS(lv, val) __CPROVER_pointer_in_range_dfcc(val, lv, val)

/* ---- replaced callees ---------------------------------------------------------------------------------------- */
#define CONTRACT_JitAllocator_fill_pattern \
  __CPROVER_requires(mem != NULL) \
  __CPROVER_assigns(g_fill_calls, g_fill_off, g_fill_size, g_fill_pat, g_fill_in_rw) \
  __CPROVER_ensures(g_fill_calls == __CPROVER_old(g_fill_calls) + 1 && g_fill_off == __CPROVER_POINTER_OFFSET(mem) && g_fill_size == byte_size && g_fill_pat == pattern && \
                    g_fill_in_rw == __CPROVER_same_object(mem, g_rw0))
#define CONTRACT_Lock_lock __CPROVER_assigns() __CPROVER_ensures(1)
#define CONTRACT_Lock_unlock __CPROVER_assigns() __CPROVER_ensures(1)
#define CONTRACT_VirtMem_protect_jit_memory __CPROVER_assigns() __CPROVER_ensures(1)
#define CONTRACT_VirtMem_flush_instruction_cache __CPROVER_assigns() __CPROVER_ensures(1)

#ifdef HAVE_STRUCT_JitAllocator_Span
static inline _Bool c_shrink_state(const struct JitAllocatorPrivateImpl* impl, const struct JitAllocator_Span* span) {
  const struct JitAllocatorBlock* b = BLK(span);
  const struct JitAllocatorPool* p = b->_pool;
  if (!(p->granularity_log2 >= 6 && p->granularity_log2 <= 8 && p->granularity == (1u << p->granularity_log2))) return 0;
  if (b->_area_size > 64u * VERIF_W || b->_area_size < 1) return 0;
  if (!c_live_run(b, g_as, g_ae)) return 0;                                         /* the span designates one live allocation */
  if (!__CPROVER_same_object(span->_rx, g_rx0) || __CPROVER_POINTER_OFFSET(span->_rx) != (uint64_t)g_as * p->granularity) return 0;
  return span->_size == g_span_size0;
}
static inline int c_shrink_post(const struct JitAllocatorPrivateImpl* impl, const struct JitAllocator_Span* span, uint64_t new_size, uint32_t ret) {
  const struct JitAllocatorBlock* b = BLK(span);
  uint32_t gran = g_p0.granularity; uint64_t prev_bytes = (uint64_t)(g_ae - g_as) * gran;
  if (new_size > prev_bytes || new_size == 0) {                                      /* H1 growing is not shrinking, and keeping nothing is a release (JitAllocator::shrink routes it there): rejected, nothing changes */
    if (ret != 2 /* kInvalidArgument */) return 1;
    if (g_fill_calls != 0 || span->_size != g_span_size0 || b->_area_used != g_b0._area_used) return 2;
    if (g_w < VERIF_W && (b->_used_bit_vector[g_w] != g_used0[g_w] || b->_stop_bit_vector[g_w] != g_stop0[g_w])) return 2;
    return 0;
  }
  if (ret != 0) return 3;
  uint32_t keep = (uint32_t)((new_size + gran - 1) / gran), diff = (g_ae - g_as) - keep;
  if (diff != 0) {
    if (span->_size != (uint64_t)keep * gran) return 4;                              /* H2 the span reports what it keeps: >= new_size, whole granules */
    if (b->_area_used != g_b0._area_used - diff) return 5;                           /* H3 exactly the tail was given back (by mark_shrunk_area's contract) */
    if (g_w < VERIF_W && b->_used_bit_vector[g_w] != (g_used0[g_w] & ~spec_range_mask64(g_w, g_as + keep, diff))) return 6;
  } else {
    if (span->_size != g_span_size0 || b->_area_used != g_b0._area_used) return 7;
  }
  if (span->_rx == NULL || __CPROVER_POINTER_OFFSET(span->_rx) != (uint64_t)g_as * gran) return 8;   /* start unchanged */
  _Bool fill = new_size < prev_bytes && (((const struct JitAllocator_Impl*)impl)->options & 4u) != 0;
  if (!fill || diff == 0) return (g_fill_calls == 0 || (g_fill_calls == 1 && g_fill_size == 0)) ? 0 : 9;
  /* H4 the fill covers exactly the granules given back, in the writable view of this block, with the allocator's pattern */
  if (g_fill_calls != 1) return 10;
  if (!g_fill_in_rw) return 11;
  if (g_fill_off != (uint64_t)(g_as + keep) * gran || g_fill_size != (uint64_t)diff * gran) return 12;
  if (g_fill_pat != ((const struct JitAllocator_Impl*)impl)->fill_pattern) return 13;
  return 0;
}
#define CONTRACT_JitAllocatorImpl_shrink \
  __CPROVER_requires(__CPROVER_is_fresh(impl, sizeof(*impl))) \
  __CPROVER_requires(__CPROVER_is_fresh(span, sizeof(*span))) \
  __CPROVER_requires(__CPROVER_is_fresh(span->_block, sizeof(struct JitAllocatorBlock))) \
  __CPROVER_requires(__CPROVER_is_fresh(BLK(span)->_pool, sizeof(struct JitAllocatorPool))) \
  __CPROVER_requires(__CPROVER_is_fresh(BLK(span)->_used_bit_vector, VERIF_W * sizeof(uint64_t))) \
  __CPROVER_requires(__CPROVER_is_fresh(BLK(span)->_stop_bit_vector, VERIF_W * sizeof(uint64_t))) \
  __CPROVER_requires(__CPROVER_is_fresh(BLK(span)->_mapping.rw, MAPB)) \
  __CPROVER_requires(g_dual ? __CPROVER_is_fresh(BLK(span)->_mapping.rx, MAPB) : PINS(BLK(span)->_mapping.rx, BLK(span)->_mapping.rw)) \
  __CPROVER_requires(g_rw0 == (uint8_t*)BLK(span)->_mapping.rw && g_rx0 == (uint8_t*)BLK(span)->_mapping.rx) \
  __CPROVER_requires(__CPROVER_pointer_in_range_dfcc(BLK(span)->_mapping.rx, span->_rx, (uint8_t*)BLK(span)->_mapping.rx + (MAPB - 1))) \
  __CPROVER_requires(c_block_snap(BLK(span)) && c_wf_block(BLK(span)) && c_shrink_state(impl, span)) \
  __CPROVER_assigns(*span, *BLK(span), __CPROVER_object_whole(BLK(span)->_pool), __CPROVER_object_whole(BLK(span)->_used_bit_vector), __CPROVER_object_whole(BLK(span)->_stop_bit_vector), \
                    g_fill_calls, g_fill_off, g_fill_size, g_fill_pat, g_fill_in_rw) \
  __CPROVER_ensures(c_wf_code(BLK(span)) == 0) \
  __CPROVER_ensures(c_shrink_post(impl, span, new_size, __CPROVER_return_value) == 0)
#endif
#endif
