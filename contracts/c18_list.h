/* Contracts for ArenaList<JitAllocatorBlock> (properties C18 "list links", C09 "block lists"): unlink removes exactly the given node,
 * keeps the order of the others and leaves the removed node with both links cleared; _add_node (append: dir 1, prepend: dir 0) puts an
 * unlinked node at that end. The list is well-formed before and after: first/last and every prev/next agree with the sequence.
 * Lists of 0..3 nodes (every position for unlink). These are the only ArenaList operations the library itself instantiates. */
#include "spec/specdefs.h"
#if defined(HAVE_STRUCT_ArenaList_JitAllocatorBlock) && defined(HAVE_STRUCT_JitAllocatorBlock)
#define LN struct JitAllocatorBlock
LN* g_n[3]; unsigned g_cnt, g_k;                    /* ghost: the nodes of the list in order, their number, the position operated on */
unsigned nondet_unsigned(void);
#define VERIF_GHOST_INIT() (__CPROVER_havoc_object(g_n), g_cnt = nondet_unsigned(), g_k = nondet_unsigned())
#define PREV(n) ((n)->__b1._list_nodes[0])
#define NEXT(n) ((n)->__b1._list_nodes[1])
/* does the list hold exactly e[0..m) in this order? returns 0 or the number of the violated clause */
static inline int c_list_is(const struct ArenaList_JitAllocatorBlock* l, LN* const* e, unsigned m) {
  if (m == 0) return (l->_nodes[0] == NULL && l->_nodes[1] == NULL) ? 0 : 1;
  if (l->_nodes[0] != e[0] || l->_nodes[1] != e[m - 1]) return 2;
  for (unsigned i = 0; i < 4; i++) {
    if (i >= m) break;
    if (PREV(e[i]) != (i == 0 ? (LN*)NULL : e[i - 1])) return 3;
    if (NEXT(e[i]) != (i + 1 == m ? (LN*)NULL : e[i + 1])) return 4;
  }
  return 0;
}
#define PINL(lv, val) __CPROVER_pointer_in_range_dfcc(val, lv, val)
/* the links are set up with pointer_in_range (not with equalities): CBMC resolves the dereference of a pointer that was loaded from a
 * node through its value set */
/* LIST_SHAPE(L): L is an lvalue of the list type */
#define LIST_SHAPE(L) \
  __CPROVER_requires(g_cnt <= 3) \
  __CPROVER_requires(g_cnt < 1 || __CPROVER_is_fresh(g_n[0], sizeof(LN))) \
  __CPROVER_requires(g_cnt < 2 || __CPROVER_is_fresh(g_n[1], sizeof(LN))) \
  __CPROVER_requires(g_cnt < 3 || __CPROVER_is_fresh(g_n[2], sizeof(LN))) \
  __CPROVER_requires(g_cnt == 0 ? ((L)._nodes[0] == NULL && (L)._nodes[1] == NULL) : \
     (PINL((L)._nodes[0], g_n[0]) && (g_cnt == 1 ? PINL((L)._nodes[1], g_n[0]) : g_cnt == 2 ? PINL((L)._nodes[1], g_n[1]) : PINL((L)._nodes[1], g_n[2])))) \
  __CPROVER_requires(g_cnt < 1 || PREV(g_n[0]) == NULL) \
  __CPROVER_requires(g_cnt < 2 || (PINL(NEXT(g_n[0]), g_n[1]) && PINL(PREV(g_n[1]), g_n[0]))) \
  __CPROVER_requires(g_cnt < 3 || (PINL(NEXT(g_n[1]), g_n[2]) && PINL(PREV(g_n[2]), g_n[1]))) \
  __CPROVER_requires(g_cnt != 1 || NEXT(g_n[0]) == NULL) \
  __CPROVER_requires(g_cnt != 2 || NEXT(g_n[1]) == NULL) \
  __CPROVER_requires(g_cnt != 3 || NEXT(g_n[2]) == NULL) \
  __CPROVER_requires(c_list_is(&(L), g_n, g_cnt) == 0)
#define LIST_PRE(self) \
  __CPROVER_requires(__CPROVER_is_fresh(self, sizeof(*self))) \
  LIST_SHAPE(*self)
#define LIST_ASSIGNS(self) \
  __CPROVER_assigns(self->_nodes[0], self->_nodes[1]) \
  __CPROVER_assigns(g_cnt >= 1: g_n[0]->__b1) __CPROVER_assigns(g_cnt >= 2: g_n[1]->__b1) __CPROVER_assigns(g_cnt >= 3: g_n[2]->__b1)

static inline int c_unlink_post(const struct ArenaList_JitAllocatorBlock* l, LN* node, LN* ret) {
  LN* rest[3]; unsigned m = 0;
  for (unsigned i = 0; i < 3; i++) if (i < g_cnt && i != g_k) rest[m++] = g_n[i];
  if (ret != node) return 10;
  if (PREV(node) != NULL || NEXT(node) != NULL) return 11;               /* the removed node is isolated */
  int c = c_list_is(l, rest, m);
  return c ? 20 + c : 0;                                                  /* the others, in order */
}
#define CONTRACT_ArenaList_JitAllocatorBlock_unlink \
  LIST_PRE(self) \
  __CPROVER_requires(g_k < g_cnt && (g_k == 0 ? PINL(node, g_n[0]) : g_k == 1 ? PINL(node, g_n[1]) : PINL(node, g_n[2]))) \
  LIST_ASSIGNS(self) \
  __CPROVER_ensures(c_unlink_post(self, node, __CPROVER_return_value) == 0)

static inline int c_add_post_list(const struct ArenaList_JitAllocatorBlock* l, LN* node, uint64_t dir) {
  LN* all[4]; unsigned m = 0;
  if (dir == 0) all[m++] = node;
  for (unsigned i = 0; i < 3; i++) if (i < g_cnt) all[m++] = g_n[i];
  if (dir != 0) all[m++] = node;
  int c = c_list_is(l, all, m);
  return c ? 30 + c : 0;
}
#define CONTRACT_ArenaList_JitAllocatorBlock__add_node \
  LIST_PRE(self) \
  __CPROVER_requires(dir <= 1 && __CPROVER_is_fresh(node, sizeof(LN)) && PREV(node) == NULL && NEXT(node) == NULL)   /* a node that is in no list */ \
  LIST_ASSIGNS(self) \
  __CPROVER_assigns(node->__b1) \
  __CPROVER_ensures(c_add_post_list(self, node, dir) == 0)
#endif
