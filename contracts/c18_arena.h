/* Contracts for Arena (properties C18, C15, C16): block chain stays well-formed (no pointer to a freed block), returned
 * memory is aligned, inside one live block and beyond everything handed out before. Chain bounded: current block + <= 2 followers. */
#include "spec/specdefs.h"
#ifdef HAVE_STRUCT_Arena
#define MB struct Arena_ManagedBlock
#define MAXBLK 512u
#ifndef VERIF_MAXSHIFT
#define VERIF_MAXSHIFT 12
#endif
uint64_t g_sz[3];                     /* ghost: payload sizes of the blocks of the chain */
uint8_t g_has1, g_has2;               /* ghost: does the current block have one / two followers */
struct Arena_ManagedBlock *g_n1, *g_n2;  /* ghost: the followers (NULL when absent); named so that the frees clause can list them unconditionally */
uint8_t* g_live;                      /* ghost: some other live allocation (a separate object: another block / a dynamic block / a slot handed out earlier) */
uint64_t g_ptr_off0;                  /* ghost: offset of the bump pointer inside the current block on entry */
struct Arena_ReusableSlot* g_slot0[8]; /* ghost: slot list heads on entry */
struct Arena_ReusableSlot* g_slotnext0[8]; /* ghost: their successors */
struct Arena_DynamicBlock *g_dyn, *g_oth; uint8_t g_dpos;   /* ghost (free_reusable): the dynamic block being released, another one, and their order in the list */
#define VERIF_GHOST_INIT() (__CPROVER_havoc_object(g_sz), __CPROVER_havoc_object(&g_has1), __CPROVER_havoc_object(&g_has2), __CPROVER_havoc_object(&g_n1), __CPROVER_havoc_object(&g_n2), __CPROVER_havoc_object(&g_live), \
   __CPROVER_havoc_object(&g_ptr_off0), __CPROVER_havoc_object(g_slot0), __CPROVER_havoc_object(g_slotnext0), \
   __CPROVER_havoc_object(&g_dyn), __CPROVER_havoc_object(&g_oth), __CPROVER_havoc_object(&g_dpos))

static inline uint8_t* c_data(MB* b) { return (uint8_t*)b + sizeof(MB); }
static inline uint8_t* c_end(MB* b) { return c_data(b) + b->size; }
#define ZERO_BLOCK ((MB*)&g_arena_zero_block)

/* shape: _current_block = B0 -> [B1 -> [B2]] -> NULL, all distinct live heap objects; B0 is also the first block */
/* blocks are modelled as objects of constant size sizeof(MB)+MAXBLK whose header announces a payload <= MAXBLK (symbolic-size
 * objects made the solver run out of memory); every access the code makes must then lie inside the announced payload */
#define BLK_FRESH(p, i) (__CPROVER_is_fresh(p, sizeof(MB) + MAXBLK) && (p)->size == g_sz[i])
#define ARENA_CHAIN_PRE(self) \
  __CPROVER_requires(__CPROVER_is_fresh(self, sizeof(*self))) \
  __CPROVER_requires(g_sz[0] <= MAXBLK && g_sz[1] <= MAXBLK && g_sz[2] <= MAXBLK && (g_sz[0] % 8) == 0 && (g_sz[1] % 8) == 0 && (g_sz[2] % 8) == 0) \
  __CPROVER_requires(BLK_FRESH(self->_current_block, 0)) \
  __CPROVER_requires(self->_first_block == self->_current_block) \
  __CPROVER_requires(self->_current_block->next == NULL || BLK_FRESH(self->_current_block->next, 1)) \
  __CPROVER_requires(self->_current_block->next == NULL || self->_current_block->next->next == NULL || BLK_FRESH(self->_current_block->next->next, 2)) \
  __CPROVER_requires(self->_current_block->next == NULL || self->_current_block->next->next == NULL || self->_current_block->next->next->next == NULL) \
  __CPROVER_requires(g_has1 == (self->_current_block->next != NULL) && g_has2 == (self->_current_block->next != NULL && self->_current_block->next->next != NULL)) \
  __CPROVER_requires(g_n1 == self->_current_block->next && g_n2 == (self->_current_block->next != NULL ? self->_current_block->next->next : (MB*)NULL)) \
  __CPROVER_requires(self->_end == c_end(self->_current_block) && __CPROVER_same_object(self->_ptr, self->_current_block) && \
     __CPROVER_POINTER_OFFSET(self->_ptr) >= sizeof(MB) && __CPROVER_POINTER_OFFSET(self->_ptr) <= sizeof(MB) + g_sz[0] && (__CPROVER_POINTER_OFFSET(self->_ptr) % 8) == 0) \
  __CPROVER_requires(self->_current_block_size_shift >= 10 && self->_current_block_size_shift <= VERIF_MAXSHIFT && self->_max_block_size_shift == 26 && self->_min_block_size_shift >= 10 && self->_min_block_size_shift <= self->_current_block_size_shift)

/* walks the chain from the first block: every link must be NULL or a live block (reading a freed block is itself a failed
 * obligation); returns 0 when well-formed, else a clause number */
static inline int c_arena_wf(const struct Arena* a) {
  MB* b = a->_first_block;
  _Bool seen_cur = 0;
  for (unsigned i = 0; i < 5; i++) {
    if (b == NULL) break;
    if (b == a->_current_block) seen_cur = 1;
    if (i == 4) return 3;                       /* longer than the harness can build: not expected */
    b = b->next;                                 /* dangling link => "deallocated dynamic object" */
  }
  if (!seen_cur) return 1;                       /* the current block is reachable from the first one */
  if (a->_end != c_end(a->_current_block)) return 2;
  if (!__CPROVER_same_object(a->_ptr, a->_current_block)) return 2;
  if (__CPROVER_POINTER_OFFSET(a->_ptr) < sizeof(MB) || __CPROVER_POINTER_OFFSET(a->_ptr) > sizeof(MB) + a->_current_block->size) return 2;
  return 0;
}

#define PIN(lv, val) __CPROVER_pointer_in_range_dfcc(val, lv, val)
#define C_R1(size) (__CPROVER_old(g_has1) && (size) <= g_sz[1])                 /* the first retained follower takes the request */
#define C_R2(size) (!C_R1(size) && __CPROVER_old(g_has2) && (size) <= g_sz[2])   /* ... else the second one */
#define CONTRACT_Arena__alloc_oneshot \
  ARENA_CHAIN_PRE(self) \
  __CPROVER_requires(size % 8 == 0 && size >= 8 && size <= ((uint64_t)1 << VERIF_MAXSHIFT)) \
  __CPROVER_assigns(*self, __CPROVER_object_whole(self->_current_block)) \
  __CPROVER_assigns(self->_current_block->next != NULL: __CPROVER_object_whole(self->_current_block->next)) \
  __CPROVER_frees(g_n1, g_n2) \
  /* A0 which block is current afterwards: the first retained follower that can hold the request, else a fresh heap block large enough \
   * for it (stated first and with is_fresh / pointer_in_range, so that a caller verified against this contract gets an addressable block) */ \
  __CPROVER_ensures(__CPROVER_return_value == NULL || \
     (C_R1(size) ? PIN(self->_current_block, __CPROVER_old(self->_current_block->next)) : \
      C_R2(size) ? PIN(self->_current_block, __CPROVER_old(self->_current_block->next->next)) : \
      __CPROVER_is_fresh(self->_current_block, sizeof(MB) + size))) \
  /* A5 the links of the chain, block by block (what A1 says in one predicate; spelled out with pointer_in_range so that a caller \
   * verified against this contract can walk the chain: CBMC resolves dereferences by value sets, not by assumed equalities) */ \
  __CPROVER_ensures(PIN(self->_first_block, __CPROVER_old(self->_first_block))) \
  __CPROVER_ensures(__CPROVER_return_value != NULL || PIN(self->_current_block, __CPROVER_old(self->_current_block))) \
  __CPROVER_ensures(__CPROVER_old(self->_current_block)->size == g_sz[0]) \
  __CPROVER_ensures(__CPROVER_return_value == NULL ? __CPROVER_old(self->_current_block)->next == NULL : \
     C_R1(size) ? PIN(__CPROVER_old(self->_current_block)->next, __CPROVER_old(self->_current_block->next)) : \
     C_R2(size) ? PIN(__CPROVER_old(self->_current_block)->next, __CPROVER_old(self->_current_block->next->next)) : \
     PIN(__CPROVER_old(self->_current_block)->next, self->_current_block)) \
  __CPROVER_ensures(__CPROVER_return_value == NULL || \
     (C_R1(size) ? (self->_current_block->size == g_sz[1] && (__CPROVER_old(g_has2) ? PIN(self->_current_block->next, __CPROVER_old(self->_current_block->next->next)) : self->_current_block->next == NULL)) : \
      C_R2(size) ? 1 : (self->_current_block->next == NULL && self->_current_block->size >= size))) \
  /* A6 a follower that is kept is not freed */ \
  __CPROVER_ensures((__CPROVER_return_value != NULL && C_R1(size)) ==> (!__CPROVER_was_freed(g_n1) && (!__CPROVER_old(g_has2) || !__CPROVER_was_freed(g_n2)))) \
  __CPROVER_ensures((__CPROVER_return_value != NULL && C_R2(size)) ==> !__CPROVER_was_freed(g_n2)) \
  /* A1 the chain is well-formed afterwards - in particular no link refers to a block that was freed */ \
  __CPROVER_ensures(c_arena_wf(self) == 0) \
  /* A2 result: NULL (allocation failure) or an 8-aligned range [p, p+size) inside the (new) current block, ending at the bump pointer */ \
  __CPROVER_ensures(__CPROVER_return_value == NULL || \
     ((__CPROVER_POINTER_OFFSET(__CPROVER_return_value) % 8) == 0 && __CPROVER_same_object(__CPROVER_return_value, self->_current_block) && \
      __CPROVER_POINTER_OFFSET(__CPROVER_return_value) >= sizeof(MB) && (uint8_t*)__CPROVER_return_value + size == self->_ptr && \
      __CPROVER_POINTER_OFFSET(self->_ptr) <= sizeof(MB) + self->_current_block->size)) \
  /* A3 a fresh block is used: never the block that was current on entry (its live allocations are untouched) */ \
  __CPROVER_ensures(__CPROVER_return_value == NULL || self->_current_block != __CPROVER_old(self->_current_block)) \
  /* A4 failure leaves the bump pointer alone */ \
  __CPROVER_ensures(__CPROVER_return_value != NULL || (self->_ptr == __CPROVER_old(self->_ptr) && self->_end == __CPROVER_old(self->_end)))
#endif

#if defined(HAVE_STRUCT_Arena) && defined(VERIF_UNIT_ARENA_RESET)
/* ---- Arena::reset (property C16): hard reset returns the arena to its constructed state and frees every block exactly once;
 *      soft reset rewinds to the first block and keeps the chain. Dynamic block list: empty or one block. ------------------ */
static inline int c_reset_post(const struct Arena* a, uint32_t policy, MB* first0, uint8_t min_shift0) {
  for (unsigned i = 0; i < 8; i++) if (a->_reusable_slots[i] != NULL) return 1;       /* no pooled slot survives (they point into rewound memory) */
  if (a->_dynamic_blocks != NULL || a->_unused_byte_count != 0) return 2;
  if (policy == 1 /* kHard */) {
    if (a->_first_block != ZERO_BLOCK || a->_current_block != ZERO_BLOCK) return 3;   /* as constructed: the static zero-sized block */
    if (a->_current_block_size_shift != min_shift0) return 4;
  } else {
    if (a->_first_block != first0 || a->_current_block != first0) return 5;           /* soft: rewound to the first block, chain kept */
    if (!__CPROVER_same_object(a->_ptr, first0) || __CPROVER_POINTER_OFFSET(a->_ptr) != sizeof(MB)) return 6;
  }
  if (a->_end != c_end(a->_current_block)) return 7;
  return 0;
}
#define CONTRACT_Arena_reset \
  ARENA_CHAIN_PRE(self) \
  __CPROVER_requires(reset_policy <= 1 && self->_has_static_block == 0) \
  __CPROVER_requires(self->_dynamic_blocks == NULL || __CPROVER_is_fresh(self->_dynamic_blocks, sizeof(struct Arena_DynamicBlock) + 64)) \
  __CPROVER_requires(self->_dynamic_blocks == NULL || self->_dynamic_blocks->next == NULL) \
  __CPROVER_assigns(*self) \
  __CPROVER_frees(self->_current_block, self->_current_block->next, self->_dynamic_blocks) \
  __CPROVER_frees(self->_current_block->next != NULL: self->_current_block->next->next) \
  __CPROVER_ensures(c_reset_post(self, reset_policy, __CPROVER_old(self->_first_block), __CPROVER_old(self->_min_block_size_shift)) == 0) \
  /* every managed block is released by a hard reset, none by a soft reset; dynamic blocks always */ \
  __CPROVER_ensures(reset_policy == 1 ==> __CPROVER_was_freed(__CPROVER_old(self->_first_block))) \
  __CPROVER_ensures((reset_policy == 1 && __CPROVER_old(self->_current_block->next) != NULL) ==> __CPROVER_was_freed(__CPROVER_old(self->_current_block->next))) \
  __CPROVER_ensures(__CPROVER_old(self->_dynamic_blocks) != NULL ==> __CPROVER_was_freed(__CPROVER_old(self->_dynamic_blocks)))
#endif


#ifdef HAVE_STRUCT_Arena
/* ---- Arena::_alloc_reusable / free_reusable (property C18: "returns aligned blocks that do not overlap any live block and recycles
 *      only released ones"). This is the contract the ArenaVector units ASSUME for the allocator (contracts/c18_vector.h).
 *      Free memory = the slot lists + the bump tail [_ptr, _end) of the current block; live memory = everything below _ptr in the
 *      current block + other objects (ghost g_live). The call must hand out free memory only and keep the two disjoint.
 *      Slot list heads are modelled as separate objects of their class size (in a running arena they lie inside managed blocks;
 *      the code never compares or subtracts slot pointers, so only their disjointness matters). -------------------------------- */
static inline uint64_t c_granted(uint64_t size) {      /* slot class 16 << k for requests <= 2048 bytes, else the request itself */
  uint64_t s = 16;
  for (unsigned k = 0; k < 8; k++, s <<= 1) if (size <= s) return s;
  return size;
}
#define SLOT_PRE(self, i) \
  __CPROVER_requires(self->_reusable_slots[i] == NULL || __CPROVER_is_fresh(self->_reusable_slots[i], (size_t)16 << i)) \
  __CPROVER_requires(g_slot0[i] == self->_reusable_slots[i] && (self->_reusable_slots[i] == NULL || (g_slotnext0[i] == self->_reusable_slots[i]->next && g_slotnext0[i] != g_slot0[i] /* lists are acyclic */)))
#define ARENA_SLOTS_PRE(self) SLOT_PRE(self, 0) SLOT_PRE(self, 1) SLOT_PRE(self, 2) SLOT_PRE(self, 3) SLOT_PRE(self, 4) SLOT_PRE(self, 5) SLOT_PRE(self, 6) SLOT_PRE(self, 7)
#define SLOT_ASSIGNS(self, i) __CPROVER_assigns(self->_reusable_slots[i] != NULL: __CPROVER_object_whole(self->_reusable_slots[i]))

static inline int c_alloc_reusable_post(const struct Arena* a, uint64_t size, uint64_t granted, const uint8_t* ret, MB* cur0) {
  if (ret == NULL) return 0;                                            /* failure: reported by NULL (wf is a separate clause) */
  if (granted != c_granted(size)) return 1;                             /* U1 the size reported is the slot class / the request */
  if ((__CPROVER_POINTER_OFFSET(ret) % 8) != 0) return 2;                 /* U2 aligned */
  if (!__CPROVER_w_ok(ret, granted)) return 3;                          /* U3 the whole block is addressable */
  if (__CPROVER_same_object(ret, g_live)) return 4;                     /* U4 never another live object ... */
  if (__CPROVER_same_object(ret, cur0) && __CPROVER_POINTER_OFFSET(ret) < g_ptr_off0) return 5;   /* ... nor anything below the old bump pointer */
  if (__CPROVER_same_object(ret, cur0) && a->_current_block == cur0 &&
      __CPROVER_POINTER_OFFSET(ret) + granted > __CPROVER_POINTER_OFFSET(a->_ptr)) return 6;      /* U5 and it is no longer part of the bump tail */
  return 0;
}
/* every slot list head afterwards is free memory: the old head, its old successor (after a pop), or a piece of the old bump tail */
static inline int c_slots_post(const struct Arena* a, const uint8_t* ret, MB* cur0) {
  for (unsigned i = 0; i < 8; i++) {
    const struct Arena_ReusableSlot* h = a->_reusable_slots[i];
    if (h == NULL || h == g_slot0[i]) { if (h != NULL && (const uint8_t*)h == ret) return 10 + i; continue; }   /* the block handed out left its list */
    if (g_slot0[i] != NULL && h == g_slotnext0[i] && (const uint8_t*)g_slot0[i] == ret) continue;                /* popped */
    if (!__CPROVER_same_object(h, cur0)) return 20 + i;
    if (__CPROVER_POINTER_OFFSET(h) < g_ptr_off0 || __CPROVER_POINTER_OFFSET(h) + ((uint64_t)16 << i) > sizeof(MB) + g_sz[0]) return 30 + i;
    if ((__CPROVER_POINTER_OFFSET(h) % 8) != 0) return 40 + i;
    /* free memory is listed once: a piece carved out of the bump tail is no longer reachable through the bump pointer */
    if (a->_current_block == cur0 && __CPROVER_POINTER_OFFSET(h) + ((uint64_t)16 << i) > __CPROVER_POINTER_OFFSET(a->_ptr)) return 50 + i;
  }
  return 0;
}
#define CONTRACT_Arena__alloc_reusable \
  ARENA_CHAIN_PRE(self) ARENA_SLOTS_PRE(self) \
  __CPROVER_requires(__CPROVER_is_fresh(allocated_size._val, sizeof(uint64_t))) \
  __CPROVER_requires(__CPROVER_is_fresh(g_live, 16)) \
  __CPROVER_requires(self->_dynamic_blocks == NULL || __CPROVER_is_fresh(self->_dynamic_blocks, sizeof(struct Arena_DynamicBlock) + 64)) \
  __CPROVER_requires(g_ptr_off0 == __CPROVER_POINTER_OFFSET(self->_ptr)) \
  __CPROVER_requires(size >= 1 && size <= ((uint64_t)1 << VERIF_MAXSHIFT)) \
  __CPROVER_assigns(*self, *allocated_size._val, __CPROVER_object_whole(self->_current_block)) \
  __CPROVER_assigns(self->_current_block->next != NULL: __CPROVER_object_whole(self->_current_block->next)) \
  __CPROVER_assigns(self->_dynamic_blocks != NULL: __CPROVER_object_whole(self->_dynamic_blocks)) \
  __CPROVER_frees(g_n1, g_n2) \
  __CPROVER_ensures(c_arena_wf(self) == 0) \
  __CPROVER_ensures(c_alloc_reusable_post(self, __CPROVER_old(size), *allocated_size._val, __CPROVER_return_value, __CPROVER_old(self->_current_block)) == 0) \
  __CPROVER_ensures(c_slots_post(self, __CPROVER_return_value, __CPROVER_old(self->_current_block)) == 0)
#endif


#if defined(HAVE_STRUCT_Arena_DynamicBlock) && defined(HAVE_STRUCT_Arena_ReusableSlot)
/* ---- Arena::free_reusable (+ _release_dynamic): a released block of a slot class becomes the head of exactly its class list (so that
 *      the next _alloc_reusable of that class may hand it out again - "recycles only released ones"); a dynamic block is unlinked
 *      from the doubly linked list and freed, the other blocks stay linked. Dynamic list: the block itself plus at most one other. -- */
#define DYN_OBJ (sizeof(struct Arena_DynamicBlock) + 8 + 64)
#define DYN_HDR (sizeof(struct Arena_DynamicBlock) + 8)
static inline unsigned c_slot_class(uint64_t size) { uint64_t s = 16; for (unsigned k = 0; k < 8; k++, s <<= 1) if (size <= s) return k; return 8; }
static inline int c_free_reusable_post(const struct Arena* a, const void* p, uint64_t size, struct Arena_DynamicBlock* dyn_list0) {
  unsigned k = c_slot_class(size);
  for (unsigned i = 0; i < 8; i++) {
    if (i == k) { if ((const void*)a->_reusable_slots[i] != p || ((const struct Arena_ReusableSlot*)p)->next != g_slot0[i]) return 1; }   /* V1 head of its own class, old list behind it */
    else if (a->_reusable_slots[i] != g_slot0[i]) return 2;                                                                          /* V2 other classes untouched */
  }
  if (k < 8) return a->_dynamic_blocks == dyn_list0 ? 0 : 3;
  /* V3 dynamic block: unlinked, the remaining block (if any) is the whole list */
  if (g_dpos == 0) return a->_dynamic_blocks == NULL ? 0 : 4;
  if (a->_dynamic_blocks != g_oth || g_oth->prev != NULL || g_oth->next != NULL) return 5;
  return 0;
}
#define CONTRACT_Arena_free_reusable \
  __CPROVER_requires(__CPROVER_is_fresh(self, sizeof(*self))) \
  __CPROVER_requires(size >= 1 && g_dpos <= 2) \
  __CPROVER_requires(size <= 2048 ? __CPROVER_is_fresh(p, 2048) : \
     (__CPROVER_is_fresh(g_dyn, DYN_OBJ) && __CPROVER_pointer_in_range_dfcc((uint8_t*)g_dyn + DYN_HDR, p, (uint8_t*)g_dyn + DYN_HDR) && \
      PIN(((struct Arena_DynamicBlock**)p)[-1], g_dyn))) \
  __CPROVER_requires(size <= 2048 || g_dpos == 0 || __CPROVER_is_fresh(g_oth, DYN_OBJ)) \
  __CPROVER_requires(size <= 2048 || (g_dpos == 0 ? (PIN(self->_dynamic_blocks, g_dyn) && g_dyn->prev == NULL && g_dyn->next == NULL) : \
                                       g_dpos == 1 ? (PIN(self->_dynamic_blocks, g_dyn) && g_dyn->prev == NULL && PIN(g_dyn->next, g_oth) && PIN(g_oth->prev, g_dyn) && g_oth->next == NULL) : \
                                                     (PIN(self->_dynamic_blocks, g_oth) && g_oth->prev == NULL && PIN(g_oth->next, g_dyn) && PIN(g_dyn->prev, g_oth) && g_dyn->next == NULL))) \
  __CPROVER_requires(g_slot0[0] == self->_reusable_slots[0] && g_slot0[1] == self->_reusable_slots[1] && g_slot0[2] == self->_reusable_slots[2] && g_slot0[3] == self->_reusable_slots[3] && \
                     g_slot0[4] == self->_reusable_slots[4] && g_slot0[5] == self->_reusable_slots[5] && g_slot0[6] == self->_reusable_slots[6] && g_slot0[7] == self->_reusable_slots[7]) \
  __CPROVER_assigns(*self, __CPROVER_object_whole(p)) \
  __CPROVER_assigns(size > 2048 && g_dpos != 0: __CPROVER_object_whole(g_oth)) \
  __CPROVER_frees(size > 2048: g_dyn) \
  __CPROVER_ensures(c_free_reusable_post(self, p, size, __CPROVER_old(self->_dynamic_blocks)) == 0) \
  __CPROVER_ensures(size > 2048 ==> __CPROVER_was_freed(g_dyn))
#endif
