/* Contracts for Arena (properties C18, C15, C16): block chain stays well-formed (no pointer to a freed block), returned
 * memory is aligned, inside one live block and beyond everything handed out before. Chain bounded: current block + <= 2 followers. */
#include "spec/specdefs.h"
#ifdef HAVE_STRUCT_Arena
#define MB struct Arena_ManagedBlock
#define MAXBLK 512u
#ifndef VERIF_MAXSHIFT
#define VERIF_MAXSHIFT 12
#endif
uint64_t g_sz[3];                     /* ghost: payload sizes of the blocks of the chain */
uint8_t g_has1, g_has2;               /* ghost: does the current block have one / two followers */
#define VERIF_GHOST_INIT() (__CPROVER_havoc_object(g_sz), __CPROVER_havoc_object(&g_has1), __CPROVER_havoc_object(&g_has2))

static inline uint8_t* c_data(MB* b) { return (uint8_t*)b + sizeof(MB); }
static inline uint8_t* c_end(MB* b) { return c_data(b) + b->size; }
#define ZERO_BLOCK ((MB*)&g_arena_zero_block)

/* shape: _current_block = B0 -> [B1 -> [B2]] -> NULL, all distinct live heap objects; B0 is also the first block */
/* blocks are modelled as objects of constant size sizeof(MB)+MAXBLK whose header announces a payload <= MAXBLK (symbolic-size
 * objects made the solver run out of memory); every access the code makes must then lie inside the announced payload */
#define BLK_FRESH(p, i) (__CPROVER_is_fresh(p, sizeof(MB) + MAXBLK) && (p)->size == g_sz[i])
#define ARENA_CHAIN_PRE(self) \
  __CPROVER_requires(__CPROVER_is_fresh(self, sizeof(*self))) \
  __CPROVER_requires(g_sz[0] <= MAXBLK && g_sz[1] <= MAXBLK && g_sz[2] <= MAXBLK && (g_sz[0] % 8) == 0 && (g_sz[1] % 8) == 0 && (g_sz[2] % 8) == 0) \
  __CPROVER_requires(BLK_FRESH(self->_current_block, 0)) \
  __CPROVER_requires(self->_first_block == self->_current_block) \
  __CPROVER_requires(self->_current_block->next == NULL || BLK_FRESH(self->_current_block->next, 1)) \
  __CPROVER_requires(self->_current_block->next == NULL || self->_current_block->next->next == NULL || BLK_FRESH(self->_current_block->next->next, 2)) \
  __CPROVER_requires(self->_current_block->next == NULL || self->_current_block->next->next == NULL || self->_current_block->next->next->next == NULL) \
  __CPROVER_requires(g_has1 == (self->_current_block->next != NULL) && g_has2 == (self->_current_block->next != NULL && self->_current_block->next->next != NULL)) \
  __CPROVER_requires(self->_end == c_end(self->_current_block) && __CPROVER_same_object(self->_ptr, self->_current_block) && \
     __CPROVER_POINTER_OFFSET(self->_ptr) >= sizeof(MB) && __CPROVER_POINTER_OFFSET(self->_ptr) <= sizeof(MB) + g_sz[0] && (__CPROVER_POINTER_OFFSET(self->_ptr) % 8) == 0) \
  __CPROVER_requires(self->_current_block_size_shift >= 10 && self->_current_block_size_shift <= VERIF_MAXSHIFT && self->_max_block_size_shift == 26 && self->_min_block_size_shift >= 10 && self->_min_block_size_shift <= self->_current_block_size_shift)

/* walks the chain from the first block: every link must be NULL or a live block (reading a freed block is itself a failed
 * obligation); returns 0 when well-formed, else a clause number */
static inline int c_arena_wf(const struct Arena* a) {
  MB* b = a->_first_block;
  _Bool seen_cur = 0;
  for (unsigned i = 0; i < 5; i++) {
    if (b == NULL) break;
    if (b == a->_current_block) seen_cur = 1;
    if (i == 4) return 3;                       /* longer than the harness can build: not expected */
    b = b->next;                                 /* dangling link => "deallocated dynamic object" */
  }
  if (!seen_cur) return 1;                       /* the current block is reachable from the first one */
  if (a->_end != c_end(a->_current_block)) return 2;
  if (!__CPROVER_same_object(a->_ptr, a->_current_block)) return 2;
  if (__CPROVER_POINTER_OFFSET(a->_ptr) < sizeof(MB) || __CPROVER_POINTER_OFFSET(a->_ptr) > sizeof(MB) + a->_current_block->size) return 2;
  return 0;
}

#define CONTRACT_Arena__alloc_oneshot \
  ARENA_CHAIN_PRE(self) \
  __CPROVER_requires(size % 8 == 0 && size >= 8 && size <= ((uint64_t)1 << VERIF_MAXSHIFT)) \
  __CPROVER_assigns(*self, __CPROVER_object_whole(self->_current_block)) \
  __CPROVER_assigns(self->_current_block->next != NULL: __CPROVER_object_whole(self->_current_block->next)) \
  __CPROVER_frees(self->_current_block->next) \
  __CPROVER_frees(self->_current_block->next != NULL: self->_current_block->next->next) \
  /* A1 the chain is well-formed afterwards - in particular no link refers to a block that was freed */ \
  __CPROVER_ensures(c_arena_wf(self) == 0) \
  /* A2 result: NULL (allocation failure) or an 8-aligned range [p, p+size) inside the (new) current block, ending at the bump pointer */ \
  __CPROVER_ensures(__CPROVER_return_value == NULL || \
     ((__CPROVER_POINTER_OFFSET(__CPROVER_return_value) % 8) == 0 && __CPROVER_same_object(__CPROVER_return_value, self->_current_block) && \
      __CPROVER_POINTER_OFFSET(__CPROVER_return_value) >= sizeof(MB) && (uint8_t*)__CPROVER_return_value + size == self->_ptr && \
      __CPROVER_POINTER_OFFSET(self->_ptr) <= sizeof(MB) + self->_current_block->size)) \
  /* A3 a fresh block is used: never the block that was current on entry (its live allocations are untouched) */ \
  __CPROVER_ensures(__CPROVER_return_value == NULL || self->_current_block != __CPROVER_old(self->_current_block)) \
  /* A4 failure leaves the bump pointer alone */ \
  __CPROVER_ensures(__CPROVER_return_value != NULL || (self->_ptr == __CPROVER_old(self->_ptr) && self->_end == __CPROVER_old(self->_end)))
#endif

#ifdef HAVE_STRUCT_Arena
/* ---- Arena::reset (property C16): hard reset returns the arena to its constructed state and frees every block exactly once;
 *      soft reset rewinds to the first block and keeps the chain. Dynamic block list: empty or one block. ------------------ */
static inline int c_reset_post(const struct Arena* a, uint32_t policy, MB* first0, uint8_t min_shift0) {
  for (unsigned i = 0; i < 8; i++) if (a->_reusable_slots[i] != NULL) return 1;       /* no pooled slot survives (they point into rewound memory) */
  if (a->_dynamic_blocks != NULL || a->_unused_byte_count != 0) return 2;
  if (policy == 1 /* kHard */) {
    if (a->_first_block != ZERO_BLOCK || a->_current_block != ZERO_BLOCK) return 3;   /* as constructed: the static zero-sized block */
    if (a->_current_block_size_shift != min_shift0) return 4;
  } else {
    if (a->_first_block != first0 || a->_current_block != first0) return 5;           /* soft: rewound to the first block, chain kept */
    if (!__CPROVER_same_object(a->_ptr, first0) || __CPROVER_POINTER_OFFSET(a->_ptr) != sizeof(MB)) return 6;
  }
  if (a->_end != c_end(a->_current_block)) return 7;
  return 0;
}
#define CONTRACT_Arena_reset \
  ARENA_CHAIN_PRE(self) \
  __CPROVER_requires(reset_policy <= 1 && self->_has_static_block == 0) \
  __CPROVER_requires(self->_dynamic_blocks == NULL || __CPROVER_is_fresh(self->_dynamic_blocks, sizeof(struct Arena_DynamicBlock) + 64)) \
  __CPROVER_requires(self->_dynamic_blocks == NULL || self->_dynamic_blocks->next == NULL) \
  __CPROVER_assigns(*self) \
  __CPROVER_frees(self->_current_block, self->_current_block->next, self->_dynamic_blocks) \
  __CPROVER_frees(self->_current_block->next != NULL: self->_current_block->next->next) \
  __CPROVER_ensures(c_reset_post(self, reset_policy, __CPROVER_old(self->_first_block), __CPROVER_old(self->_min_block_size_shift)) == 0) \
  /* every managed block is released by a hard reset, none by a soft reset; dynamic blocks always */ \
  __CPROVER_ensures(reset_policy == 1 ==> __CPROVER_was_freed(__CPROVER_old(self->_first_block))) \
  __CPROVER_ensures((reset_policy == 1 && __CPROVER_old(self->_current_block->next) != NULL) ==> __CPROVER_was_freed(__CPROVER_old(self->_current_block->next))) \
  __CPROVER_ensures(__CPROVER_old(self->_dynamic_blocks) != NULL ==> __CPROVER_was_freed(__CPROVER_old(self->_dynamic_blocks)))
#endif
