/* Contracts for JitAllocatorBlock (property C09 layer 2): representation invariant wf_block (DESIGN.md appendix A) and the
 * exact effect of mark_released_area / mark_shrunk_area / mark_allocated_area / clear_block. Bit vectors bounded by VERIF_W words. */
#include "spec/bits.h"
#ifndef VERIF_W
#define VERIF_W 2
#endif
#ifdef HAVE_STRUCT_JitAllocatorBlock
#define F_PAD 1u
#define F_EMPTY 2u
#define F_DIRTY 4u
#define F_INCR 8u
#define F_LARGE 16u

#ifndef C_GHOST_OBJ
#define C_GHOST_OBJ(T, name) struct T name
#endif
C_GHOST_OBJ(JitAllocatorBlock, g_b0);    /* ghost: entry state of the block, its pool and its vectors */
C_GHOST_OBJ(JitAllocatorPool, g_p0);
uint64_t g_used0[VERIF_W], g_stop0[VERIF_W];
size_t g_w;                              /* ghost word witness */
uint32_t g_ra, g_rb;                     /* ghost witness: an arbitrary candidate free run [g_ra, g_rb) */
size_t nondet_size_t(void); uint32_t nondet_u32(void);
#define VERIF_GHOST_INIT() (g_w = nondet_size_t(), g_ra = nondet_u32(), g_rb = nondet_u32(), __CPROVER_havoc_object(&g_b0), \
   __CPROVER_havoc_object(&g_p0), __CPROVER_havoc_object(g_used0), __CPROVER_havoc_object(g_stop0))

static inline _Bool c_block_snap(const struct JitAllocatorBlock* b) {
  if (b->_flags != g_b0._flags || b->_area_size != g_b0._area_size || b->_area_used != g_b0._area_used ||
      b->_largest_unused_area != g_b0._largest_unused_area || b->_search_start != g_b0._search_start || b->_search_end != g_b0._search_end ||
      b->_block_size != g_b0._block_size) return 0;
  for (unsigned i = 0; i < VERIF_W; i++) if (b->_used_bit_vector[i] != g_used0[i] || b->_stop_bit_vector[i] != g_stop0[i]) return 0;
  const struct JitAllocatorPool* p = b->_pool;
  return p->total_area_used[0] == g_p0.total_area_used[0] && p->total_area_used[1] == g_p0.total_area_used[1] &&
         p->total_area_size[0] == g_p0.total_area_size[0] && p->total_area_size[1] == g_p0.total_area_size[1] &&
         p->block_count == g_p0.block_count && p->empty_block_count == g_p0.empty_block_count && p->granularity == g_p0.granularity &&
         p->granularity_log2 == g_p0.granularity_log2 && p->total_overhead_bytes == g_p0.total_overhead_bytes;
}
static inline _Bool c_pool_unchanged_but_used(const struct JitAllocatorPool* p) {
  return p->total_area_size[0] == g_p0.total_area_size[0] && p->total_area_size[1] == g_p0.total_area_size[1] &&
         p->block_count == g_p0.block_count && p->empty_block_count == g_p0.empty_block_count && p->granularity == g_p0.granularity &&
         p->granularity_log2 == g_p0.granularity_log2 && p->total_overhead_bytes == g_p0.total_overhead_bytes;
}

/* ---- wf_block ------------------------------------------------------------------------------------------------ */
/* returns 0 when well-formed, else the number of the violated clause (shows up in counterexample traces) */
static inline int c_wf_bits(const uint64_t* used, const uint64_t* stop, uint32_t n, uint32_t pad, uint32_t area_used) {
  uint32_t cnt = 0; uint64_t carry = 0;
  for (unsigned w = 0; w < VERIF_W; w++) {
    if ((uint32_t)w * 64 >= n) break;                                  /* the real vectors end with the word holding granule n-1 */
    uint64_t valid = spec_range_mask64(w, 0, n);
    if ((used[w] & ~valid) || (stop[w] & ~valid)) return 1;            /* B1 nothing beyond the area */
    if (stop[w] & ~used[w]) return 2;                                   /* B2 a stop bit marks a used granule */
    uint64_t cont = used[w] & ~stop[w];                                 /* granules whose allocation continues */
    uint64_t next = (cont << 1) | carry;
    if (next & ~used[w]) return 3;                                      /* B3 ... are followed by a used granule (also rules out a run leaving the area) */
    carry = cont >> 63;
    cnt += spec_popcount64(used[w]);
  }
  if (carry) return 3;
  if (cnt != area_used) return 4;                                       /* B4 */
  if (pad && !((used[0] & 1) && (stop[0] & 1))) return 4;
  return 0;
}
static inline int c_wf_fields(const uint64_t* used, const uint64_t* stop, uint32_t n, uint32_t fl, uint32_t area_used, uint32_t ss, uint32_t se, uint32_t lua) {
  uint32_t pad = fl & F_PAD;
  if (n < 2 || n > VERIF_W * 64) return 10;
  int c = c_wf_bits(used, stop, n, pad, area_used);
  if (c) return c;
  if (area_used < pad || area_used > n) return 11;
  _Bool full = area_used == n;
  if (((fl & F_EMPTY) != 0) != (area_used == pad)) return 5;        /* B5 Empty <=> nothing but the padding is used */
  if (full) {                                                           /* B6 full block: closed window */
    if (ss != n || se != 0 || lua != 0 || (fl & F_DIRTY)) return 6;
    return 0;
  }
  if (ss > se || se > n) return 13;
  for (unsigned w = 0; w < VERIF_W; w++) {                              /* B6 every free granule lies inside the search window */
    if ((uint32_t)w * 64 >= n) break;
    uint64_t valid = spec_range_mask64(w, 0, n);
    uint64_t win = spec_range_mask64(w, ss, se - ss);
    if (~used[w] & valid & ~win) return 6;
  }
  if (fl & F_INCR) {                                                    /* B7 incremental: used is exactly the prefix [0, search_start) */
    if (se != n || lua != n - ss) return 7;
    if (!spec_all_bits(used, VERIF_W, 0, ss, 1) || !spec_all_bits(used, VERIF_W, ss, n, 0)) return 7;
  } else if (!(fl & F_DIRTY)) {                                         /* B8 clean cache: no free run inside the window is larger than advertised */
    if (g_ra < g_rb && g_ra >= ss && g_rb <= se && spec_all_bits(used, VERIF_W, g_ra, g_rb, 0) &&
        g_rb - g_ra > lua) return 8;
  }
  if ((fl & F_EMPTY) && !(ss == pad && se == n && lua == n - pad)) return 9;
  return 0;
}
static inline int c_wf_code(const struct JitAllocatorBlock* b) {
  return c_wf_fields(b->_used_bit_vector, b->_stop_bit_vector, b->_area_size, b->_flags, b->_area_used, b->_search_start, b->_search_end, b->_largest_unused_area);
}
static inline _Bool c_wf_block(const struct JitAllocatorBlock* b) { return c_wf_code(b) == 0; }
/* [s, e) is exactly one live allocation */
static inline _Bool c_live_run(const struct JitAllocatorBlock* b, uint32_t s, uint32_t e) {
  uint32_t pad = b->_flags & F_PAD;
  if (!(s < e && e <= b->_area_size && s >= pad)) return 0;
  if (!spec_all_bits(b->_used_bit_vector, VERIF_W, s, e, 1)) return 0;
  if (!spec_bit(b->_stop_bit_vector, e - 1) || !spec_all_bits(b->_stop_bit_vector, VERIF_W, s, e - 1, 0)) return 0;
  if (s > 0 && spec_bit(b->_used_bit_vector, s - 1) && !spec_bit(b->_stop_bit_vector, s - 1)) return 0;   /* s starts the run */
  return 1;
}

#define BLOCK_PRE(self) \
  __CPROVER_requires(__CPROVER_is_fresh(self, sizeof(*self))) \
  __CPROVER_requires(__CPROVER_is_fresh(self->_pool, sizeof(*self->_pool))) \
  __CPROVER_requires(__CPROVER_is_fresh(self->_used_bit_vector, VERIF_W * sizeof(uint64_t))) \
  __CPROVER_requires(__CPROVER_is_fresh(self->_stop_bit_vector, VERIF_W * sizeof(uint64_t))) \
  __CPROVER_requires(c_block_snap(self))
/* frame: the bookkeeping scalars of the block, the pool's used-area counters and the two bit vectors - none of the pointers */
#define BLOCK_ASSIGNS(self) __CPROVER_assigns(self->_flags, self->_area_used, self->_largest_unused_area, self->_search_start, self->_search_end, \
   self->_pool->total_area_used[0], self->_pool->total_area_used[1], __CPROVER_object_whole(self->_used_bit_vector), __CPROVER_object_whole(self->_stop_bit_vector))
#define LARGE(self) ((g_b0._flags & F_LARGE) ? 1 : 0)

/* release of one live allocation: invariant kept, exactly that run disappears, accounting moves by its size */
#define CONTRACT_JitAllocatorBlock_mark_released_area \
  BLOCK_PRE(self) \
  __CPROVER_requires(c_wf_block(self)) \
  __CPROVER_requires(c_live_run(self, released_area_start, released_area_end)) \
  BLOCK_ASSIGNS(self) \
  __CPROVER_ensures(c_wf_code(self) == 0) \
  __CPROVER_ensures(g_w < VERIF_W ==> self->_used_bit_vector[g_w] == (g_used0[g_w] & ~spec_range_mask64(g_w, released_area_start, released_area_end - released_area_start))) \
  __CPROVER_ensures(g_w < VERIF_W ==> self->_stop_bit_vector[g_w] == (g_stop0[g_w] & ~spec_range_mask64(g_w, released_area_end - 1, 1))) \
  __CPROVER_ensures(self->_area_used == g_b0._area_used - (released_area_end - released_area_start)) \
  __CPROVER_ensures(self->_pool->total_area_used[LARGE(self)] == g_p0.total_area_used[LARGE(self)] - (released_area_end - released_area_start)) \
  __CPROVER_ensures(self->_pool->total_area_used[1 - LARGE(self)] == g_p0.total_area_used[1 - LARGE(self)] && c_pool_unchanged_but_used(self->_pool)) \
  __CPROVER_ensures(self->_area_size == g_b0._area_size && ((self->_flags ^ g_b0._flags) & ~(F_EMPTY | F_DIRTY | F_INCR)) == 0)

/* shrink: the tail [start, end) of a live allocation is given back, the allocation keeps [its start, start) */
static inline _Bool c_live_tail(const struct JitAllocatorBlock* b, uint32_t s, uint32_t e) {
  uint32_t pad = b->_flags & F_PAD;
  if (!(s < e && e <= b->_area_size && s >= 1 && s > pad)) return 0;
  if (!spec_all_bits(b->_used_bit_vector, VERIF_W, s - 1, e, 1)) return 0;
  if (!spec_bit(b->_stop_bit_vector, e - 1) || !spec_all_bits(b->_stop_bit_vector, VERIF_W, s - 1, e - 1, 0)) return 0;
  return 1;
}
#define CONTRACT_JitAllocatorBlock_mark_shrunk_area \
  BLOCK_PRE(self) \
  __CPROVER_requires(c_wf_block(self)) \
  __CPROVER_requires(c_live_tail(self, shrunk_area_start, shrunk_area_end)) \
  BLOCK_ASSIGNS(self) \
  __CPROVER_ensures(c_wf_code(self) == 0) \
  __CPROVER_ensures(g_w < VERIF_W ==> self->_used_bit_vector[g_w] == (g_used0[g_w] & ~spec_range_mask64(g_w, shrunk_area_start, shrunk_area_end - shrunk_area_start))) \
  __CPROVER_ensures(g_w < VERIF_W ==> self->_stop_bit_vector[g_w] == ((g_stop0[g_w] & ~spec_range_mask64(g_w, shrunk_area_end - 1, 1)) | spec_range_mask64(g_w, shrunk_area_start - 1, 1))) \
  __CPROVER_ensures(self->_area_used == g_b0._area_used - (shrunk_area_end - shrunk_area_start)) \
  __CPROVER_ensures(self->_pool->total_area_used[LARGE(self)] == g_p0.total_area_used[LARGE(self)] - (shrunk_area_end - shrunk_area_start)) \
  __CPROVER_ensures(self->_pool->total_area_used[1 - LARGE(self)] == g_p0.total_area_used[1 - LARGE(self)] && c_pool_unchanged_but_used(self->_pool))

/* allocation: alloc() has already adjusted the search cache of a well-formed block W (ghost g_b0 holds W's cache and flags):
 *  (a) incremental fast path: s == W.search_start, W.largest >= size, largest already decremented;
 *  (b) range search: [s, e) is a free run inside W's window, cache as in W;
 *  (c) fresh block: W is the cleared block, search_start and largest already moved past the allocation.
 * alloc() may have cleared kFlagEmpty before the call. */
static inline _Bool c_alloc_pre(const struct JitAllocatorBlock* b, uint32_t s, uint32_t e) {
  uint32_t n = b->_area_size, sz = e - s, wfl = g_b0._flags;
  if (!(s < e && e <= n)) return 0;
  if (c_wf_fields(b->_used_bit_vector, b->_stop_bit_vector, n, wfl, b->_area_used, g_b0._search_start, g_b0._search_end, g_b0._largest_unused_area)) return 0;
  if (b->_flags != wfl && b->_flags != (wfl & ~F_EMPTY)) return 0;
  if (!spec_all_bits(b->_used_bit_vector, VERIF_W, s, e, 0)) return 0;                      /* the granules are free */
  if ((wfl & F_INCR) && g_b0._largest_unused_area >= sz) {
    if (s != g_b0._search_start || b->_search_end != g_b0._search_end || b->_largest_unused_area != g_b0._largest_unused_area - sz) return 0;
    return b->_search_start == g_b0._search_start                                             /* (a) */
        || ((wfl & F_EMPTY) && b->_flags == wfl && b->_search_start == g_b0._search_start + sz); /* (c) */
  }
  if (wfl & F_INCR) return 0;
  if (!(s >= g_b0._search_start && e <= g_b0._search_end)) return 0;                          /* (b) */
  return b->_search_start == g_b0._search_start && b->_search_end == g_b0._search_end && b->_largest_unused_area == g_b0._largest_unused_area;
}
static inline _Bool c_block_snap_alloc(const struct JitAllocatorBlock* b) {
  for (unsigned i = 0; i < VERIF_W; i++) if (b->_used_bit_vector[i] != g_used0[i] || b->_stop_bit_vector[i] != g_stop0[i]) return 0;
  const struct JitAllocatorPool* p = b->_pool;
  return b->_area_used == g_b0._area_used && b->_area_size == g_b0._area_size &&
         p->total_area_used[0] == g_p0.total_area_used[0] && p->total_area_used[1] == g_p0.total_area_used[1] &&
         p->total_area_size[0] == g_p0.total_area_size[0] && p->total_area_size[1] == g_p0.total_area_size[1] &&
         p->block_count == g_p0.block_count && p->empty_block_count == g_p0.empty_block_count && p->granularity == g_p0.granularity &&
         p->granularity_log2 == g_p0.granularity_log2 && p->total_overhead_bytes == g_p0.total_overhead_bytes;
}
#define CONTRACT_JitAllocatorBlock_mark_allocated_area \
  __CPROVER_requires(__CPROVER_is_fresh(self, sizeof(*self))) \
  __CPROVER_requires(__CPROVER_is_fresh(self->_pool, sizeof(*self->_pool))) \
  __CPROVER_requires(__CPROVER_is_fresh(self->_used_bit_vector, VERIF_W * sizeof(uint64_t))) \
  __CPROVER_requires(__CPROVER_is_fresh(self->_stop_bit_vector, VERIF_W * sizeof(uint64_t))) \
  __CPROVER_requires(c_block_snap_alloc(self)) \
  __CPROVER_requires(c_alloc_pre(self, allocated_area_start, allocated_area_end)) \
  BLOCK_ASSIGNS(self) \
  __CPROVER_ensures(c_wf_code(self) == 0) \
  __CPROVER_ensures(g_w < VERIF_W ==> self->_used_bit_vector[g_w] == (g_used0[g_w] | spec_range_mask64(g_w, allocated_area_start, allocated_area_end - allocated_area_start))) \
  __CPROVER_ensures(g_w < VERIF_W ==> self->_stop_bit_vector[g_w] == (g_stop0[g_w] | spec_range_mask64(g_w, allocated_area_end - 1, 1))) \
  __CPROVER_ensures(self->_area_used == g_b0._area_used + (allocated_area_end - allocated_area_start)) \
  __CPROVER_ensures(self->_pool->total_area_used[LARGE(self)] == g_p0.total_area_used[LARGE(self)] + (allocated_area_end - allocated_area_start)) \
  __CPROVER_ensures(self->_pool->total_area_used[1 - LARGE(self)] == g_p0.total_area_used[1 - LARGE(self)] && c_pool_unchanged_but_used(self->_pool)) \
  __CPROVER_ensures((self->_flags & F_EMPTY) == 0)

/* construction / reset of a block */
#define CONTRACT_JitAllocatorBlock_clear_block \
  BLOCK_PRE(self) \
  __CPROVER_requires(self->_area_size >= 2 && self->_area_size <= VERIF_W * 64) \
  BLOCK_ASSIGNS(self) \
  __CPROVER_ensures(c_wf_code(self) == 0) \
  __CPROVER_ensures((self->_flags & (F_EMPTY | F_INCR | F_DIRTY)) == (F_EMPTY | F_INCR)) \
  __CPROVER_ensures(self->_area_used == (g_b0._flags & F_PAD) && self->_area_size == g_b0._area_size) \
  __CPROVER_ensures(self->_pool->total_area_used[0] == g_p0.total_area_used[0] && self->_pool->total_area_used[1] == g_p0.total_area_used[1])
#endif
