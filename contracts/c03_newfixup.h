/* Contract for CodeHolder::new_fixup (property C03, "fixup creation at the reference site"): the reference is recorded exactly as
 * given (section, offset, rel, format), not yet tagged with a label or relocation, put at the head of the label's pending chain with
 * the old chain behind it, and counted once; when no record can be allocated nothing changes and NULL is returned.
 * The record comes from the holder's fixup pool (recycled) or from the arena (bump pointer / Arena::_alloc_oneshot by an ASSUMED
 * "NULL or fresh" contract). Note: the arena's fast path computes `_ptr + size` before comparing it with `_end`; the block object
 * here extends 64 bytes beyond `_end`, so that this pointer arithmetic stays inside an object (in a real block whose `_end` is the
 * end of the malloc'ed memory the intermediate pointer can lie past it - not checked here). */
#include "spec/specdefs.h"
#if defined(HAVE_STRUCT_CodeHolder) && defined(HAVE_STRUCT_Fixup)
#define INVALID_ID 0xFFFFFFFFu
struct LabelEntry g_le0; uint64_t g_count0; struct ArenaPool_Fixup_40_Link* g_pool0; struct ArenaPool_Fixup_40_Link* g_poolnext0; struct OffsetFormat g_fmt0;
uint8_t* g_ptr0; uint64_t g_rem0;
#define VERIF_GHOST_INIT() (__CPROVER_havoc_object(&g_le0), __CPROVER_havoc_object(&g_count0), __CPROVER_havoc_object(&g_pool0), __CPROVER_havoc_object(&g_poolnext0), \
   __CPROVER_havoc_object(&g_fmt0), __CPROVER_havoc_object(&g_ptr0), __CPROVER_havoc_object(&g_rem0))
#define CONTRACT_Arena__alloc_oneshot \
  __CPROVER_requires(size == 40) __CPROVER_assigns() \
  __CPROVER_ensures(__CPROVER_return_value == NULL || __CPROVER_is_fresh(__CPROVER_return_value, 40))
static inline _Bool c_fmt_eq(const struct OffsetFormat* a, const struct OffsetFormat* b) {
  const uint8_t* x = (const uint8_t*)a; const uint8_t* y = (const uint8_t*)b;
  for (unsigned i = 0; i < sizeof(struct OffsetFormat); i++) if (x[i] != y[i]) return 0;
  return 1;
}
static inline int c_newfixup_post(const struct CodeHolder* self, const struct LabelEntry* le, uint32_t section_id, uint64_t offset, int64_t rel, const struct Fixup* ret) {
  if (ret == NULL) {                                                              /* N1 failure: nothing changed */
    return (le->_offset_or_fixups == g_le0._offset_or_fixups && le->_object_data == g_le0._object_data && self->_unresolved_fixup_count == g_count0 &&
            self->_fixup_data_pool._data == g_pool0 && self->_arena._ptr == g_ptr0) ? 0 : 1;
  }
  if (ret->section_id != section_id || ret->offset != offset || ret->rel != rel || !c_fmt_eq(&ret->format, &g_fmt0)) return 2;   /* N2 recorded as given */
  if (ret->label_or_reloc_id != INVALID_ID) return 3;                               /* N3 not yet tagged */
  if ((uint64_t)ret->next != g_le0._offset_or_fixups) return 4;                     /* N4 head of the label's chain, old chain behind it */
  if (le->_offset_or_fixups != (uint64_t)ret || le->_object_data != g_le0._object_data) return 5;
  if (self->_unresolved_fixup_count != g_count0 + 1) return 6;                      /* N5 counted once */
  /* N6 the record is free memory: the pool's head (then the pool advances), the bump region (then the bump pointer advances past it), or fresh */
  if (g_pool0 != NULL) return ((const void*)ret == (const void*)g_pool0 && self->_fixup_data_pool._data == g_poolnext0 && self->_arena._ptr == g_ptr0) ? 0 : 7;
  if (self->_fixup_data_pool._data != NULL) return 8;
  if (g_rem0 >= 40) return ((const uint8_t*)ret == g_ptr0 && self->_arena._ptr == g_ptr0 + 40) ? 0 : 9;
  return (self->_arena._ptr == g_ptr0 && !__CPROVER_same_object(ret, g_ptr0)) ? 0 : 10;
}
#define CONTRACT_CodeHolder_new_fixup \
  __CPROVER_requires(__CPROVER_is_fresh(self, sizeof(*self))) \
  __CPROVER_requires(__CPROVER_is_fresh(le, sizeof(*le))) \
  __CPROVER_requires(__CPROVER_is_fresh(format, sizeof(*format))) \
  __CPROVER_requires(__CPROVER_is_fresh(le->_object_data, sizeof(struct SectionOrLabelEntryExtraHeader) + 8) && le->_object_data->_section_id == INVALID_ID)   /* unbound */ \
  __CPROVER_requires(self->_fixup_data_pool._data == NULL || __CPROVER_is_fresh(self->_fixup_data_pool._data, 40)) \
  __CPROVER_requires(__CPROVER_is_fresh(self->_arena._ptr, 128) && g_rem0 <= 64 && (g_rem0 % 8) == 0 && self->_arena._end == self->_arena._ptr + g_rem0) \
  __CPROVER_requires(g_le0._offset_or_fixups == le->_offset_or_fixups && g_le0._object_data == le->_object_data && g_count0 == self->_unresolved_fixup_count && g_count0 < UINT64_MAX) \
  __CPROVER_requires(g_pool0 == self->_fixup_data_pool._data && (g_pool0 == NULL || g_poolnext0 == self->_fixup_data_pool._data->next) && g_ptr0 == self->_arena._ptr && c_fmt_eq(format, &g_fmt0)) \
  __CPROVER_assigns(self->_unresolved_fixup_count, self->_fixup_data_pool._data, self->_arena._ptr, le->_offset_or_fixups, __CPROVER_object_whole(self->_arena._ptr)) \
  __CPROVER_assigns(self->_fixup_data_pool._data != NULL: __CPROVER_object_whole(self->_fixup_data_pool._data)) \
  __CPROVER_ensures(c_newfixup_post(self, le, section_id, offset, rel, __CPROVER_return_value) == 0)
#endif
