/* Contract for CodeHolder::bind_label (property C03): every pending reference of the label is resolved to the bound position
 * (same section: the displacement written is label - reference + rel; other section: kept for later, tagged with the label;
 * relocation-carrying: payload rebased exactly once), failures are reported and stay counted, invalid arguments change nothing.
 * Bounds: 1 label entry, 2 sections, 1 relocation entry, <= 2 pending fixups on the label, buffers <= VERIF_BUF bytes. */
#include "contracts/c17_offset.h"   /* write_offset is replaced by its contract (proved in unit c17.write_offset) */
#include "spec/errors.h"
#undef VERIF_GHOST_INIT
#ifdef HAVE_STRUCT_CodeHolder
#ifndef VERIF_BUF
#define VERIF_BUF 24
#endif
#define INVALID_ID 0xFFFFFFFFu
#ifndef VERIF_NFIX
#define VERIF_NFIX 2      /* pending fixups on the label: quick explores <= 1, thorough <= 2 */
#endif
struct Fixup* g_fx0; struct Fixup* g_fx1;          /* ghost: the label's pending fixups, in chain order */
struct Fixup g_f0, g_f1;                            /* ghost: their contents on entry */
struct SectionOrLabelEntryExtraHeader* g_le_hdr;    /* ghost: header of the label entry on entry */
uint64_t g_unresolved0, g_payload0; struct Fixup* g_holder_fixups0; void* g_pool0;
uint64_t g_word0[2];                                /* ghost: the words at the two reference sites on entry */
unsigned g_nfix;                                    /* ghost: number of pending fixups (0..2) */
uint32_t g_le_sec0;                                 /* ghost: section id in the label's header on entry (INVALID_ID = unbound) */
#define VERIF_GHOST_INIT() (g_k = nondet_size_t(), __CPROVER_havoc_object(&g_le_sec0), __CPROVER_havoc_object(&g_fx0), __CPROVER_havoc_object(&g_fx1), __CPROVER_havoc_object(&g_f0), __CPROVER_havoc_object(&g_f1), \
  __CPROVER_havoc_object(&g_le_hdr), __CPROVER_havoc_object(&g_unresolved0), __CPROVER_havoc_object(&g_payload0), __CPROVER_havoc_object(&g_holder_fixups0), \
  __CPROVER_havoc_object(&g_pool0), __CPROVER_havoc_object(g_word0), __CPROVER_havoc_object(&g_nfix))

#define LBL_ID(label) ((label)->__b0.__b0._base_id)
#define LABELS(self) ((self)->_label_entries.__b0)
#define SECS(self) ((self)->_sections.__b0)
#define RELS(self) ((self)->_relocations.__b0)
#define LE(self, i) (&((struct LabelEntry*)LABELS(self)._data)[i])
#define SECP(self, i) (((struct Section**)SECS(self)._data)[i])
#define REL(self, i) (((struct RelocEntry**)RELS(self)._data)[i])
/* the label's fixup chain head lives in the integer field _offset_or_fixups: it is given its object through this pointer-typed
 * lvalue (is_fresh assigns it), because CBMC resolves dereferences by value sets, not by assumed equalities */
#define FXHEAD(self) (*(struct Fixup**)&LE(self, 0)->_offset_or_fixups)
#define FMT_WF_ANY(f) ((f)->_value_size == 8 ? (spec_format_wf((f)->_type, 8, (f)->_imm_bit_count, (f)->_imm_bit_shift, (f)->_imm_discard_lsb, 64) && (f)->_type <= 1) \
                                            : spec_format_wf((f)->_type, (f)->_value_size, (f)->_imm_bit_count, (f)->_imm_bit_shift, (f)->_imm_discard_lsb, 32))
static inline uint64_t c_le64(const uint8_t* p, unsigned n) { uint64_t v = 0; for (unsigned i = 0; i < 8; i++) if (i < n) v |= (uint64_t)p[i] << (8 * i); return v; }

/* a pending fixup as new_fixup() creates it: inside its section's buffer, format well-formed, region covers the value */
static inline _Bool c_fixup_ok(const struct CodeHolder* self, const struct Fixup* f) {
  if (f->section_id >= SECS(self)._size) return 0;
  const struct Section* s = SECP(self, f->section_id);
  if (!(f->label_or_reloc_id == INVALID_ID || f->label_or_reloc_id < RELS(self)._size)) return 0;
  if (!FMT_WF_ANY(&f->format)) return 0;
  if ((unsigned)f->format._value_offset + f->format._value_size > f->format._region_size) return 0;
  return f->offset < s->_buffer._size && s->_buffer._size - f->offset >= f->format._region_size;
}
static inline _Bool c_bind_state(const struct CodeHolder* self, const struct Label* label) {
  if (LABELS(self)._size != 1 || SECS(self)._size > 2 || SECS(self)._size < 1 || RELS(self)._size > 1) return 0;
  for (unsigned i = 0; i < 2; i++) { if (SECP(self, i)->__b0._section_id != i || SECP(self, i)->_buffer._size > VERIF_BUF) return 0; }
  if (g_nfix > VERIF_NFIX) return 0;
  const struct LabelEntry* le = LE(self, 0);
  if (le->_object_data != g_le_hdr || le->_object_data->_section_id != g_le_sec0) return 0;
  if (g_le_sec0 == INVALID_ID) {                   /* unbound: the offset field holds the head of the fixup chain */
    if (g_nfix == 0) { if (le->_offset_or_fixups != 0) return 0; }
    else {
      struct Fixup* h = FXHEAD(self);
      if (g_fx0 != h || !c_fixup_ok(self, h)) return 0;
      if (g_nfix == 1) { if (h->next != NULL) return 0; }
      else {
        if (g_fx1 != h->next || h->next->next != NULL || !c_fixup_ok(self, h->next)) return 0;
        const struct Fixup* a = h; const struct Fixup* b = h->next;       /* two references never share bytes (they belong to different instructions) */
        if (a->section_id == b->section_id && !(a->offset + a->format._region_size <= b->offset || b->offset + b->format._region_size <= a->offset)) return 0;
      }
    }
  }
  return self->_unresolved_fixup_count >= g_nfix;
}
static inline _Bool c_fix_snap(const struct CodeHolder* self, const struct Fixup* f, const struct Fixup* g, uint64_t word) {
  const uint8_t* a = (const uint8_t*)&f->format; const uint8_t* b = (const uint8_t*)&g->format;
  for (unsigned i = 0; i < sizeof(struct OffsetFormat); i++) if (a[i] != b[i]) return 0;
  if (g->section_id != f->section_id || g->label_or_reloc_id != f->label_or_reloc_id || g->offset != f->offset || g->rel != f->rel) return 0;
  return word == c_le64(SECP(self, f->section_id)->_buffer._data + f->offset + f->format._value_offset, f->format._value_size);
}
#ifdef HAVE_STRUCT_RelocEntry   /* the bind_label-specific part (units that do not touch relocation entries skip it) */
static inline _Bool c_bind_snap(const struct CodeHolder* self) {
  if (g_le_sec0 == INVALID_ID && g_nfix >= 1 && !c_fix_snap(self, FXHEAD(self), &g_f0, g_word0[0])) return 0;
  if (g_le_sec0 == INVALID_ID && g_nfix == 2 && !c_fix_snap(self, FXHEAD(self)->next, &g_f1, g_word0[1])) return 0;
  if (RELS(self)._size == 1 && g_payload0 != REL(self, 0)->_payload) return 0;
  return g_unresolved0 == self->_unresolved_fixup_count && g_holder_fixups0 == self->_fixups && g_pool0 == (void*)self->_fixup_data_pool._data;
}
/* classification of one pending fixup: 0 = resolved in place, 1 = kept (other section), 2 = kept (displacement does not fit), 3 = relocation rebased */
static inline int c_fix_class(const struct Fixup* snap, uint32_t to_section, uint64_t to_offset) {
  if (snap->label_or_reloc_id != INVALID_ID) return 3;
  if (snap->section_id != to_section) return 1;
  int64_t disp = (int64_t)(to_offset - snap->offset + (uint64_t)snap->rel);
  return spec_representable(disp, snap->format._type, snap->format._imm_bit_count, snap->format._imm_discard_lsb) ? 0 : 2;
}
/* resolved in place: the field now decodes to label - site + rel (given the reference site left the field zero), other bits kept */
static inline int c_fix_resolved(const struct CodeHolder* self, const struct Fixup* snap, uint64_t word0, uint64_t to_offset) {
  const struct Section* s = SECP(self, snap->section_id);
  uint64_t w = c_le64(s->_buffer._data + snap->offset + snap->format._value_offset, snap->format._value_size);
  uint64_t m = spec_field_mask(snap->format._type, snap->format._imm_bit_count, snap->format._imm_bit_shift);
  int64_t disp = (int64_t)(to_offset - snap->offset + (uint64_t)snap->rel);
  if ((w & ~m) != (word0 & ~m)) return 14;
  if ((word0 & m) == 0 && spec_offset_decode(w, snap->format._type, snap->format._imm_bit_count, snap->format._imm_bit_shift, snap->format._imm_discard_lsb) != disp) return 15;
  return 0;
}
static inline int c_bind_post(const struct CodeHolder* self, const struct Label* label, uint32_t to_section, uint64_t to_offset, uint32_t ret) {
  uint32_t id = LBL_ID(label);
  if (id >= LABELS(self)._size) return ret == E_INVALID_LABEL ? 0 : 1;
  if (to_section >= SECS(self)._size) return ret == E_INVALID_SECTION ? 0 : 2;
  if (g_le_sec0 != INVALID_ID) return ret == E_LABEL_ALREADY_BOUND ? 0 : 3;
  const struct LabelEntry* le = LE(self, 0);
  if (le->_object_data->_section_id != to_section || le->_offset_or_fixups != to_offset) return 4;      /* bound: section and offset recorded */
  unsigned resolved = 0, failed = 0, kept = 0, nrel = 0;
  const struct Fixup* p = self->_fixups;               /* kept fixups are moved, in order, to the front of the holder's cross-section list */
  for (unsigned k = 0; k < 2; k++) {
    if (k >= g_nfix) break;
    const struct Fixup* snap = k == 0 ? &g_f0 : &g_f1;
    int c = c_fix_class(snap, to_section, to_offset);
    if (c == 0 || c == 3) resolved++; else kept++;
    if (c == 2) failed++;
    if (c == 3) { nrel++; if (REL(self, 0)->_target_section_id != to_section) return 13; }
    if (c == 0) { int r = c_fix_resolved(self, snap, g_word0[k], to_offset); if (r) return r; }
    if (c == 1 || c == 2) {                              /* kept: same record, tagged with the label, still describing the same site */
      if (p != (k == 0 ? g_fx0 : g_fx1)) return 10;
      if (p->label_or_reloc_id != id || p->section_id != snap->section_id || p->offset != snap->offset || p->rel != snap->rel) return 11;
      p = p->next;
    }
  }
  if (p != g_holder_fixups0) return 8;                                                    /* ... followed by what was there before */
  if (self->_unresolved_fixup_count != g_unresolved0 - resolved) return 5;               /* exactly the resolved ones leave the count */
  if (ret != (failed ? E_INVALID_DISPLACEMENT : E_OK)) return 6;
  if (RELS(self)._size == 1 && REL(self, 0)->_payload != g_payload0 + nrel * to_offset) return 7;   /* payload rebased once per relocation-carrying fixup */
  return 0;
}

#endif
#define FRESH_SEC(self, i) __CPROVER_requires(__CPROVER_is_fresh(SECP(self, i), sizeof(struct Section))) \
  __CPROVER_requires(__CPROVER_is_fresh(SECP(self, i)->_buffer._data, VERIF_BUF))
#ifdef HAVE_STRUCT_RelocEntry
#define CONTRACT_CodeHolder_bind_label \
  __CPROVER_requires(__CPROVER_is_fresh(self, sizeof(*self))) \
  __CPROVER_requires(__CPROVER_is_fresh(label, sizeof(*label))) \
  __CPROVER_requires(__CPROVER_is_fresh(LABELS(self)._data, sizeof(struct LabelEntry))) \
  __CPROVER_requires(__CPROVER_is_fresh(SECS(self)._data, 2 * sizeof(struct Section*))) \
  FRESH_SEC(self, 0) FRESH_SEC(self, 1) \
  __CPROVER_requires(__CPROVER_is_fresh(RELS(self)._data, sizeof(struct RelocEntry*))) \
  __CPROVER_requires(__CPROVER_is_fresh(REL(self, 0), sizeof(struct RelocEntry))) \
  __CPROVER_requires(__CPROVER_is_fresh(LE(self, 0)->_object_data, sizeof(struct SectionOrLabelEntryExtraHeader) + 8)) \
  __CPROVER_requires(g_nfix == 0 || __CPROVER_is_fresh(FXHEAD(self), sizeof(struct Fixup))) \
  __CPROVER_requires(g_nfix != 2 || __CPROVER_is_fresh(FXHEAD(self)->next, sizeof(struct Fixup))) \
  __CPROVER_requires(self->_fixups == NULL || __CPROVER_is_fresh(self->_fixups, sizeof(struct Fixup))) \
  __CPROVER_requires(c_bind_state(self, label) && c_bind_snap(self)) \
  __CPROVER_requires(to_offset <= ((uint64_t)1 << 40)) \
  __CPROVER_assigns(*self, __CPROVER_object_whole(LABELS(self)._data), __CPROVER_object_whole(LE(self, 0)->_object_data), \
     __CPROVER_object_whole(REL(self, 0)), __CPROVER_object_whole(SECP(self, 0)->_buffer._data), __CPROVER_object_whole(SECP(self, 1)->_buffer._data)) \
  __CPROVER_assigns(g_nfix >= 1: __CPROVER_object_whole(FXHEAD(self))) \
  __CPROVER_assigns(g_nfix == 2: __CPROVER_object_whole(FXHEAD(self)->next)) \
  __CPROVER_ensures(c_bind_post(self, label, to_section_id, to_offset, __CPROVER_return_value) == 0)
#endif
#endif
