/* Contract for String::prepare (properties C18, C15): the three representations (embedded / heap / external) keep size,
 * capacity and NUL-termination consistent, the returned pointer addresses `size` writable bytes, an append keeps the old
 * contents, a failed allocation leaves the string untouched. Heap/external buffers of the pre-state bounded by VERIF_SCAP bytes. */
#include "spec/specdefs.h"
#ifdef HAVE_STRUCT_String
#ifndef VERIF_SCAP
#define VERIF_SCAP 40
#endif
#define T_LARGE 0x1Fu
#define T_EXTERNAL 0x20u
#define SSO_CAP 30u
#define OLDN ((VERIF_SCAP > 30 ? VERIF_SCAP : 30) + 1)   /* embedded strings hold up to 30 characters */
char g_old[OLDN];                     /* ghost: contents on entry */
uint64_t g_old_size, g_old_cap; uint8_t g_old_type; char* g_old_data;
char* g_old_heap;                     /* ghost: the buffer the string owns on entry (kTypeLarge), else NULL - named so that the frees clause is unconditional */
size_t g_i;                           /* ghost byte index */
size_t nondet_size_t(void);
#define VERIF_GHOST_INIT() (g_i = nondet_size_t(), __CPROVER_havoc_object(g_old), __CPROVER_havoc_object(&g_old_size), __CPROVER_havoc_object(&g_old_cap), \
   __CPROVER_havoc_object(&g_old_type), __CPROVER_havoc_object(&g_old_data), __CPROVER_havoc_object(&g_old_heap))

static inline _Bool c_is_heap(const struct String* s) { return s->_type >= T_LARGE; }
static inline const char* c_str_data(const struct String* s) { return c_is_heap(s) ? s->_large.data : s->_small.data; }
static inline uint64_t c_str_size(const struct String* s) { return c_is_heap(s) ? s->_large.size : s->_small.type; }
static inline uint64_t c_str_cap(const struct String* s) { return c_is_heap(s) ? s->_large.capacity : SSO_CAP; }
/* representation invariant (pre-state form: heap buffers are VERIF_SCAP+1 byte objects) */
static inline _Bool c_str_wf_pre(const struct String* s) {
  if (s->_type > T_EXTERNAL) return 0;
  if (c_is_heap(s)) { if (!(s->_large.capacity <= VERIF_SCAP && s->_large.size <= s->_large.capacity && s->_large.capacity >= 1)) return 0; }
  return c_str_data(s)[c_str_size(s)] == 0;
}
static inline _Bool c_str_snap(const struct String* s) {
  if (g_old_type != s->_type || g_old_size != c_str_size(s) || g_old_cap != c_str_cap(s) || g_old_data != c_str_data(s)) return 0;
  for (unsigned i = 0; i < OLDN; i++) if (i <= g_old_size && g_old[i] != c_str_data(s)[i]) return 0;
  return 1;
}
#define STR_PRE(self) \
  __CPROVER_requires(__CPROVER_is_fresh(self, sizeof(*self))) \
  __CPROVER_requires(self->_type < T_LARGE || __CPROVER_is_fresh(self->_large.data, VERIF_SCAP + 1)) \
  __CPROVER_requires(c_str_wf_pre(self)) \
  __CPROVER_requires(c_str_snap(self)) \
  __CPROVER_requires(self->_type == T_LARGE ? g_old_heap == self->_large.data : __CPROVER_is_fresh(g_old_heap, 1))   /* (a dummy object otherwise: was_freed wants a live target) */

static inline int c_prepare_post(const struct String* s, uint32_t op, uint64_t size, const char* ret) {
  uint64_t want = op == 0 ? size : g_old_size + size;           /* ModifyOp::kAssign = 0, kAppend = 1 */
  if (ret == NULL) {                                             /* failure: nothing changed */
    if (s->_type != g_old_type || c_str_size(s) != g_old_size || c_str_cap(s) != g_old_cap || c_str_data(s) != g_old_data) return 1;
    if (g_i <= g_old_size && c_str_data(s)[g_i] != g_old[g_i]) return 2;
    return 0;
  }
  if (c_str_size(s) != want) return 3;                           /* size is what was asked for */
  if (c_str_cap(s) < want) return 4;                             /* capacity covers it */
  if (ret != c_str_data(s) + (op == 0 ? 0 : g_old_size)) return 6;   /* the caller writes its `size` bytes here */
  if (op != 0 && g_i < g_old_size && c_str_data(s)[g_i] != g_old[g_i]) return 7;   /* append keeps every old byte */
  if (g_old_type == T_EXTERNAL && g_old_data == c_str_data(s) && s->_type != T_EXTERNAL) return 8;   /* an external buffer stays external while it is used */
  if (c_str_data(s) == g_old_data && (c_str_cap(s) != g_old_cap || s->_type > T_EXTERNAL)) return 9;   /* in-place: representation kept */
  if (c_str_data(s)[want] != 0) return 5;                        /* NUL terminated (checked after the capacity clauses: the index is then inside the buffer) */
  return 0;
}
#define PINP(lv, val) __CPROVER_pointer_in_range_dfcc(val, lv, val)
#define CONTRACT_String_prepare \
  STR_PRE(self) \
  __CPROVER_requires(op <= 1 && size <= ((uint64_t)1 << 40)) \
  __CPROVER_assigns(*self) \
  __CPROVER_assigns(self->_type >= T_LARGE: __CPROVER_object_whole(self->_large.data)) \
  __CPROVER_frees(g_old_heap) \
  /* the old heap buffer is released exactly when it was owned (kTypeLarge) and replaced */ \
  __CPROVER_ensures(!(g_old_type == T_LARGE && __CPROVER_return_value != NULL && c_str_data(self) != g_old_data) || __CPROVER_was_freed(g_old_heap)) \
  /* ... and kept alive whenever it is still the string's buffer (or the call failed) */ \
  __CPROVER_ensures(!(g_old_type == T_LARGE && (__CPROVER_return_value == NULL || c_str_data(self) == g_old_data)) || !__CPROVER_was_freed(g_old_heap)) \
  /* P0 (for callers verified against this contract; stated before the main postcondition and with is_fresh / pointer_in_range because \
   * CBMC resolves dereferences by value sets): the buffer afterwards is the old one or a fresh one of the required size, the result points into it */ \
  __CPROVER_ensures(!c_is_heap(self) || \
     (self->_large.data == __CPROVER_old(self->_large.data) && __CPROVER_old(self->_type) >= T_LARGE \
        ? PINP(self->_large.data, __CPROVER_old(self->_large.data)) \
        : (__CPROVER_return_value != NULL && __CPROVER_is_fresh(self->_large.data, (op == 0 ? size : g_old_size + size) + 1)))) \
  __CPROVER_ensures(__CPROVER_return_value == NULL || PINP(__CPROVER_return_value, (char*)c_str_data(self) + (op == 0 ? 0 : g_old_size))) \
  __CPROVER_ensures(c_prepare_post(self, op, size, __CPROVER_return_value) == 0)

/* ---- the operations built on prepare (prepare is inlined in these units: replacing it by its contract ran into dfcc's handling of
 *      was_freed / pointer_in_range in assumed postconditions; the clauses P0 above remain as a stronger checked contract): the string afterwards is exactly what the textbook
 *      string operation yields - assign: the source; append: old contents followed by the source; fill variants likewise; truncate:
 *      the prefix - NUL-terminated, with size/capacity consistent; an allocation failure leaves the string as it was.
 *      Sources are separate buffers of VERIF_SRC bytes (a source aliasing the string's own buffer is outside this contract). ---- */
#ifndef VERIF_SRC
#define VERIF_SRC 12
#endif
char g_src[VERIF_SRC];                 /* ghost: the source bytes on entry */
#undef VERIF_GHOST_INIT
#define VERIF_GHOST_INIT() (g_i = nondet_size_t(), __CPROVER_havoc_object(g_old), __CPROVER_havoc_object(&g_old_size), __CPROVER_havoc_object(&g_old_cap), \
   __CPROVER_havoc_object(&g_old_type), __CPROVER_havoc_object(&g_old_data), __CPROVER_havoc_object(&g_old_heap), __CPROVER_havoc_object(g_src))
static inline uint64_t c_src_len(void) { for (unsigned i = 0; i < VERIF_SRC; i++) if (g_src[i] == 0) return i; return VERIF_SRC; }
static inline _Bool c_src_snap(const char* p) { for (unsigned i = 0; i < VERIF_SRC; i++) if (g_src[i] != p[i]) return 0; return 1; }
/* op: 0 assign, 1 append; n source length; fill: the source is n copies of c */
static inline int c_str_result(const struct String* s, uint32_t ret, uint32_t op, uint64_t n, _Bool fill, char c) {
  if (ret == 1 /* kOutOfMemory */) {
    if (s->_type != g_old_type || c_str_size(s) != g_old_size || c_str_cap(s) != g_old_cap || c_str_data(s) != g_old_data) return 20;
    if (g_i <= g_old_size && c_str_data(s)[g_i] != g_old[g_i]) return 21;
    return 0;
  }
  if (ret != 0) return 22;
  uint64_t base = op == 0 ? 0 : g_old_size, want = base + n;
  if (c_str_size(s) != want) return 23;                                  /* S1 exactly the textbook length */
  if (c_str_cap(s) < want || s->_type > T_EXTERNAL) return 24;
  if (c_str_data(s)[want] != 0) return 25;                                /* S2 NUL terminated */
  if (g_i < base && c_str_data(s)[g_i] != g_old[g_i]) return 26;          /* S3 append keeps the old contents */
  if (g_i >= base && g_i < want && c_str_data(s)[g_i] != (fill ? c : g_src[g_i - base])) return 27;   /* S4 followed by the source */
  return 0;
}
#ifdef VERIF_STR_EMBEDDED_ONLY
#define STR_SHAPE(self) __CPROVER_requires(self->_type < T_LARGE)   /* quick tier: embedded pre-states only */
#else
#define STR_SHAPE(self)
#endif
#define STR_FRAME(self) STR_SHAPE(self) \
  __CPROVER_assigns(*self) \
  __CPROVER_assigns(self->_type >= T_LARGE: __CPROVER_object_whole(self->_large.data)) \
  __CPROVER_frees(g_old_heap)
#define CONTRACT_String__op_string \
  STR_PRE(self) STR_FRAME(self) \
  __CPROVER_requires(op <= 1 && __CPROVER_is_fresh(str, VERIF_SRC) && c_src_snap(str)) \
  __CPROVER_requires(size <= VERIF_SRC || (size == UINT64_MAX && str[VERIF_SRC - 1] == 0)) \
  __CPROVER_ensures(c_str_result(self, __CPROVER_return_value, op, __CPROVER_old(size) == UINT64_MAX ? c_src_len() : __CPROVER_old(size), 0, 0) == 0)
#define CONTRACT_String_assign__char_p_u64 \
  STR_PRE(self) STR_FRAME(self) \
  __CPROVER_requires(__CPROVER_is_fresh(data, VERIF_SRC) && c_src_snap(data)) \
  __CPROVER_requires(size <= VERIF_SRC || (size == UINT64_MAX && data[VERIF_SRC - 1] == 0)) \
  __CPROVER_ensures(c_str_result(self, __CPROVER_return_value, 0, __CPROVER_old(size) == UINT64_MAX ? c_src_len() : __CPROVER_old(size), 0, 0) == 0)
#ifdef HAVE_STRUCT_Span_char
#define CONTRACT_String_assign__Span_char \
  STR_PRE(self) STR_FRAME(self) \
  __CPROVER_requires(__CPROVER_is_fresh(span._data, VERIF_SRC) && c_src_snap(span._data) && span._size <= VERIF_SRC) \
  __CPROVER_ensures(c_str_result(self, __CPROVER_return_value, 0, span._size, 0, 0) == 0)
#endif
#define CONTRACT_String__op_char \
  STR_PRE(self) STR_FRAME(self) \
  __CPROVER_requires(op <= 1) \
  __CPROVER_ensures(c_str_result(self, __CPROVER_return_value, op, 1, 1, c) == 0)
#define CONTRACT_String__op_chars \
  STR_PRE(self) STR_FRAME(self) \
  __CPROVER_requires(op <= 1 && n <= VERIF_SRC) \
  __CPROVER_ensures(c_str_result(self, __CPROVER_return_value, op, n, 1, c) == 0)
#define CONTRACT_String_pad_end \
  STR_PRE(self) STR_FRAME(self) \
  __CPROVER_requires(n <= g_old_size + VERIF_SRC) \
  __CPROVER_ensures(c_str_result(self, __CPROVER_return_value, 1, n > g_old_size ? n - g_old_size : 0, 1, c) == 0)
static inline int c_truncate_post(const struct String* s, uint32_t ret, uint64_t new_size) {
  uint64_t want = new_size < g_old_size ? new_size : g_old_size;
  if (ret != 0) return 30;
  if (s->_type != (c_is_heap(s) ? g_old_type : (uint8_t)want) || c_str_size(s) != want || c_str_cap(s) != g_old_cap || c_str_data(s) != g_old_data) return 31;
  if (c_str_data(s)[want] != 0) return 32;
  if (g_i < want && c_str_data(s)[g_i] != g_old[g_i]) return 33;
  return 0;
}
#define CONTRACT_String_truncate \
  STR_PRE(self) \
  __CPROVER_assigns(*self) \
  __CPROVER_assigns(self->_type >= T_LARGE: __CPROVER_object_whole(self->_large.data)) \
  __CPROVER_ensures(c_truncate_post(self, __CPROVER_return_value, new_size) == 0)
#endif
