/* Contract for String::prepare (properties C18, C15): the three representations (embedded / heap / external) keep size,
 * capacity and NUL-termination consistent, the returned pointer addresses `size` writable bytes, an append keeps the old
 * contents, a failed allocation leaves the string untouched. Heap/external buffers of the pre-state bounded by VERIF_SCAP bytes. */
#include "spec/specdefs.h"
#ifdef HAVE_STRUCT_String
#ifndef VERIF_SCAP
#define VERIF_SCAP 40
#endif
#define T_LARGE 0x1Fu
#define T_EXTERNAL 0x20u
#define SSO_CAP 30u
char g_old[VERIF_SCAP + 1];           /* ghost: contents on entry */
uint64_t g_old_size, g_old_cap; uint8_t g_old_type; char* g_old_data;
size_t g_i;                           /* ghost byte index */
size_t nondet_size_t(void);
#define VERIF_GHOST_INIT() (g_i = nondet_size_t(), __CPROVER_havoc_object(g_old), __CPROVER_havoc_object(&g_old_size), __CPROVER_havoc_object(&g_old_cap), \
   __CPROVER_havoc_object(&g_old_type), __CPROVER_havoc_object(&g_old_data))

static inline _Bool c_is_heap(const struct String* s) { return s->_type >= T_LARGE; }
static inline const char* c_str_data(const struct String* s) { return c_is_heap(s) ? s->_large.data : s->_small.data; }
static inline uint64_t c_str_size(const struct String* s) { return c_is_heap(s) ? s->_large.size : s->_small.type; }
static inline uint64_t c_str_cap(const struct String* s) { return c_is_heap(s) ? s->_large.capacity : SSO_CAP; }
/* representation invariant (pre-state form: heap buffers are VERIF_SCAP+1 byte objects) */
static inline _Bool c_str_wf_pre(const struct String* s) {
  if (s->_type > T_EXTERNAL) return 0;
  if (c_is_heap(s)) { if (!(s->_large.capacity <= VERIF_SCAP && s->_large.size <= s->_large.capacity && s->_large.capacity >= 1)) return 0; }
  return c_str_data(s)[c_str_size(s)] == 0;
}
static inline _Bool c_str_snap(const struct String* s) {
  if (g_old_type != s->_type || g_old_size != c_str_size(s) || g_old_cap != c_str_cap(s) || g_old_data != c_str_data(s)) return 0;
  for (unsigned i = 0; i <= VERIF_SCAP; i++) if (i <= g_old_size && g_old[i] != c_str_data(s)[i]) return 0;
  return 1;
}
#define STR_PRE(self) \
  __CPROVER_requires(__CPROVER_is_fresh(self, sizeof(*self))) \
  __CPROVER_requires(self->_type < T_LARGE || __CPROVER_is_fresh(self->_large.data, VERIF_SCAP + 1)) \
  __CPROVER_requires(c_str_wf_pre(self)) \
  __CPROVER_requires(c_str_snap(self))

static inline int c_prepare_post(const struct String* s, uint32_t op, uint64_t size, const char* ret) {
  uint64_t want = op == 0 ? size : g_old_size + size;           /* ModifyOp::kAssign = 0, kAppend = 1 */
  if (ret == NULL) {                                             /* failure: nothing changed */
    if (s->_type != g_old_type || c_str_size(s) != g_old_size || c_str_cap(s) != g_old_cap || c_str_data(s) != g_old_data) return 1;
    if (g_i <= g_old_size && c_str_data(s)[g_i] != g_old[g_i]) return 2;
    return 0;
  }
  if (c_str_size(s) != want) return 3;                           /* size is what was asked for */
  if (c_str_cap(s) < want) return 4;                             /* capacity covers it */
  if (c_str_data(s)[want] != 0) return 5;                        /* NUL terminated */
  if (ret != c_str_data(s) + (op == 0 ? 0 : g_old_size)) return 6;   /* the caller writes its `size` bytes here */
  if (op != 0 && g_i < g_old_size && c_str_data(s)[g_i] != g_old[g_i]) return 7;   /* append keeps every old byte */
  if (g_old_type == T_EXTERNAL && g_old_data == c_str_data(s) && s->_type != T_EXTERNAL) return 8;   /* an external buffer stays external while it is used */
  if (c_str_data(s) == g_old_data && (c_str_cap(s) != g_old_cap || s->_type > T_EXTERNAL)) return 9;   /* in-place: representation kept */
  return 0;
}
#define CONTRACT_String_prepare \
  STR_PRE(self) \
  __CPROVER_requires(op <= 1 && size <= ((uint64_t)1 << 40)) \
  __CPROVER_assigns(*self) \
  __CPROVER_assigns(self->_type >= T_LARGE: __CPROVER_object_whole(self->_large.data)) \
  __CPROVER_frees(self->_type == T_LARGE: self->_large.data) \
  __CPROVER_ensures(c_prepare_post(self, op, size, __CPROVER_return_value) == 0) \
  /* the old heap buffer is released exactly when it was owned (kTypeLarge) and replaced */ \
  __CPROVER_ensures((g_old_type == T_LARGE && __CPROVER_return_value != NULL && c_str_data(self) != g_old_data) ==> __CPROVER_was_freed(__CPROVER_old(self->_large.data)))
#endif
