"""Per-property claim texts for MANIFEST.json (the decisions are explained in DESIGN.md section 3)."""
COMMON_NOTE = ("Trusted: clang 14 AST + the cxx2c lowering (re-generated from the working tree on every run; struct layouts static-asserted), CBMC 6.11 + CaDiCaL, "
               "host configuration x86-64 LP64 with ASMJIT_BUILD_DEBUG. Spec functions under /verif/spec encode the ISA/ABI reference. Per-unit assumptions are in the evidence file.")
CLAIMS = {
    "C17": {"category": "proof",
            "text": "Every codec function (encode_offset32/64, write_offset, is_encodable_offset_32/64, is_int_n, arm::Utils immediates, a64 MOV-wide sequences, LMH) is under a contract "
                    "whose postcondition is round-trip + field-mask + exact acceptance against an independent decoder; CBMC discharges every obligation for all 2^64 values and every "
                    "well-formed format (loops are width-bounded and fully unwound with unwinding assertions, hence complete). This is the whole property for the formats the two backends use.",
            "note": COMMON_NOTE + " Thumb32/AArch32 offset types (unused by the backends of this tree) get safety obligations only."},
    "C10": {"category": "model_checking",
            "text": "CodeHolder::flatten and code_size are verified against an independent reference layout (ordering, non-overlap, alignment, virtual-size cover, failure atomicity, error exactly on "
                    "64-bit overflow) for all sizes/alignments/offsets, with the number of sections bounded (3 quick / 6 thorough): bounded in the section count, unbounded in every numeric input.",
            "note": COMMON_NOTE + " Section table built by is_fresh preconditions; section count bound is stated in the evidence. copy_* and JitRuntime::_add are not yet under contract."},
    "C07": {"category": "proof",
            "text": "FuncFrame::finalize is under a contract stating that the frame areas (call, local, extra save, DA slot, push/pop save, return address) are ordered and disjoint, aligned as the "
                    "attributes promise, that save areas have exactly the room the saved registers need, SP is never saved, FP/LR become dirty when FP is preserved, and stack-argument offsets are "
                    "consistent; proved for all register masks, sizes up to 2^28, alignments, attribute bits and every architecture with populated ArchTraits. Prolog/epilog emission is not covered (partial).",
            "note": COMMON_NOTE + " Precondition = states FuncFrame::init plus the public setters produce (c_frame_pre in contracts/c07_frame.h)."},
}
CLAIMS.update({
    "C06": {"category": "proof",
            "text": "Argument classification is verified modularly for x86-64 System V, Win64, AArch64 AAPCS64 and Apple arm64: init_call_conv is proved to produce exactly the ABI's CallConv record "
                    "(argument register order, callee-saved sets, red zone / home space, alignment; loop-free, complete), and init_func_detail - given that record - is proved to put a witness "
                    "argument of an arbitrary signature of integer/float/vector types at the location an independent left-to-right ABI scan (spec/abi.h) prescribes, with the ABI's stack-area size. "
                    "The argument loops are bounded by the code's own kMaxFuncArgs = 32: the thorough tier unwinds them completely (proof), the quick tier checks signatures of <= 10 arguments. "
                    "Partial: return values, 32-bit conventions, vectorcall stack offsets, MMX/x87 types and the entry-move solver (emit_args_assignment) are not covered.",
            "note": COMMON_NOTE + " One known finding (KF-C06-1, System V vector stack alignment) is re-checked on the complement of its witness class on every run."},
    "C09": {"category": "model_checking",
            "text": "Layer 1: the bit-vector primitives (fill/clear/set/get/index_of) are verified word-exactly against reference masks. Layer 2: JitAllocatorBlock::mark_allocated_area / "
                    "mark_released_area / mark_shrunk_area / clear_block are verified to preserve the representation invariant wf_block (used/stop consistency, popcount == area_used, Empty <=> only "
                    "padding used, every free granule inside the search window, incremental and clean caches exact) and to change exactly the named run and the pool accounting - an inductive "
                    "step over arbitrary histories, for every well-formed block state. Bounded in the bit-vector length (64 granules quick / 128 thorough). JitAllocator::alloc/release/shrink "
                    "themselves (block list, RB-tree, range search, virtual memory) are not yet under contract: partial.",
            "note": COMMON_NOTE + " Bit-vector functions are inlined into the block units (their bodies are re-verified in context)."},
    "C18": {"category": "model_checking",
            "text": "Arena::_alloc_oneshot (block chain stays free of dangling links, result aligned/inside a fresh block, failure leaves the bump pointer), String::prepare (three "
                    "representations, size/capacity/NUL invariant, append keeps contents, failed allocation leaves the string untouched, old heap buffer freed exactly once) and the bit-vector "
                    "primitives are under contract, for bounded heap shapes (<= 3 arena blocks, string buffers <= 40 bytes, vectors <= 2 words) and symbolic sizes. ArenaVector/Hash/Tree/List and "
                    "the remaining String operations are not yet under contract: partial.",
            "note": COMMON_NOTE + " malloc/free: CBMC's model with --malloc-may-fail --malloc-fail-null; memcpy/memset: byte-loop stubs."},
})
NOT_APPLICABLE = {
    "C05": "whole-program semantic preservation of register allocation is a relational property over unbounded CFGs and an ISA semantics; no per-function contract in reach of CBMC expresses it",
    "C08": "byte equality of two emitters over all call sequences is a relational history property through virtual emitter interfaces and the whole assembler; not expressible as function contracts here",
    "C11": "quantifies over thread schedules; CBMC's contract instrumentation (dfcc) is sequential and has no thread model",
    "C12": "the oracle is the physical CPU / ISA database; a contract would need a formal semantics of ~1800 instructions",
    "C13": "agreement of validator, encoder and database over all forms needs _emit (4400 lines of goto-structured dispatch) and the generated tables as one relational statement; out of reach of the lowering/CBMC",
    "C20": "needs a grammar oracle for assembler text and unbounded string/snprintf/division reasoning that CBMC cannot discharge; no contract within reach decides it",
}
