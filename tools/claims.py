"""Per-property claim texts for MANIFEST.json (the decisions are explained in DESIGN.md section 3)."""
COMMON_NOTE = ("Trusted: clang 14 AST + the cxx2c lowering (re-generated from the working tree on every run; struct layouts static-asserted), CBMC 6.11 + CaDiCaL, "
               "host configuration x86-64 LP64 with ASMJIT_BUILD_DEBUG. Spec functions under /verif/spec encode the ISA/ABI reference. Per-unit assumptions are in the evidence file.")
CLAIMS = {
    "C17": {"category": "proof",
            "text": "Every codec function (encode_offset32/64, write_offset, is_encodable_offset_32/64, is_int_n, arm::Utils immediates, a64 MOV-wide sequences, LMH) is under a contract "
                    "whose postcondition is round-trip + field-mask + exact acceptance against an independent decoder; CBMC discharges every obligation for all 2^64 values and every "
                    "well-formed format (loops are width-bounded and fully unwound with unwinding assertions, hence complete). This is the whole property for the formats the two backends use.",
            "note": COMMON_NOTE + " Thumb32/AArch32 offset types (unused by the backends of this tree) get safety obligations only."},
    "C10": {"category": "model_checking",
            "text": "CodeHolder::flatten and code_size are verified against an independent reference layout (ordering, non-overlap, alignment, virtual-size cover, failure atomicity, error exactly on "
                    "64-bit overflow) for all sizes/alignments/offsets, with the number of sections bounded (3 quick / 6 thorough): bounded in the section count, unbounded in every numeric input.",
            "note": COMMON_NOTE + " Section table built by is_fresh preconditions; section count bound is stated in the evidence. copy_* and JitRuntime::_add are not yet under contract."},
    "C07": {"category": "proof",
            "text": "FuncFrame::finalize is under a contract stating that the frame areas (call, local, extra save, DA slot, push/pop save, return address) are ordered and disjoint, aligned as the "
                    "attributes promise, that save areas have exactly the room the saved registers need, SP is never saved, FP/LR become dirty when FP is preserved, and stack-argument offsets are "
                    "consistent; proved for all register masks, sizes up to 2^28, alignments, attribute bits and every architecture with populated ArchTraits. Prolog/epilog emission is not covered (partial).",
            "note": COMMON_NOTE + " Precondition = states FuncFrame::init plus the public setters produce (c_frame_pre in contracts/c07_frame.h)."},
}
CLAIMS.update({
    "C06": {"category": "proof",
            "text": "Argument classification is verified modularly for x86-64 System V, Win64, AArch64 AAPCS64 and Apple arm64: init_call_conv is proved to produce exactly the ABI's CallConv record "
                    "(argument register order, callee-saved sets, red zone / home space, alignment; loop-free, complete), and init_func_detail - given that record - is proved to put a witness "
                    "argument of an arbitrary signature of integer/float/vector types at the location an independent left-to-right ABI scan (spec/abi.h) prescribes, with the ABI's stack-area size. "
                    "The argument loops are bounded by the code's own kMaxFuncArgs = 32: the thorough tier unwinds them completely (proof), the quick tier checks signatures of <= 10 arguments. "
                    "Partial: return values, 32-bit conventions, vectorcall stack offsets, MMX/x87 types and the entry-move solver (emit_args_assignment) are not covered.",
            "note": COMMON_NOTE + " One known finding (KF-C06-1, System V vector stack alignment) is re-checked on the complement of its witness class on every run."},
    "C09": {"category": "model_checking",
            "text": "Layer 1: the bit-vector primitives (fill/clear/set/get/index_of) are verified word-exactly against reference masks. Layer 2: JitAllocatorBlock::mark_allocated_area / "
                    "mark_released_area / mark_shrunk_area / clear_block are verified to preserve the representation invariant wf_block (used/stop consistency, popcount == area_used, Empty <=> only "
                    "padding used, every free granule inside the search window, incremental and clean caches exact) and to change exactly the named run and the pool accounting - an inductive "
                    "step over arbitrary histories, for every well-formed block state. Bounded in the bit-vector length (64 granules quick / 128 thorough). Layer 3: JitAllocator::release (exactly the live span starting at rx is given back, allocation count, pattern fill of exactly that memory, an emptied block is deleted "
                    "iff the pool already retains one or immediate release is set, NULL/foreign pointers rejected without change) and JitAllocator::query (exactly the live span, both views; "
                    "free granules and foreign pointers rejected) are verified modularly over mark_released_area with the address tree as an assumed stub. JitAllocatorImpl_shrink "
                    "(used by shrink() and write()) is verified modularly over mark_shrunk_area: sizes that are zero or larger than the span are rejected without change, the span keeps its "
                    "start and >= new_size bytes, exactly the granules behind it are given back, and the pattern fill covers exactly that memory in the writable view of the same block. "
                    "Pool accounting: JitAllocatorImpl_insertBlock / removeBlock (list order, address-tree call, totals, and the cursor never designating a block that left the list) "
                    "modular over the proved ArenaList::unlink/_add_node contracts, pools of <= 3 blocks. "
                    "Free-range search: BitVectorRangeIterator<BitWord,0>::init/next_range - the iterator invariant is established by init and kept by every next_range, and every returned "
                    "range is non-empty, inside the window and consists of free granules only, given that no free granule lies at or beyond the window end (which is wf_block's "
                    "search-window clause). JitAllocator::alloc and reset themselves (the glue between these pieces, block creation, virtual memory) and double release are not under contract: partial.",
            "note": COMMON_NOTE + " Bit-vector functions are inlined into the block units (their bodies are re-verified in context)."},
    "C18": {"category": "model_checking",
            "text": "Arena: _alloc_oneshot (block chain free of dangling links, result aligned/inside the new current block, failure leaves the bump pointer), _alloc_reusable (granted size = slot "
                    "class or request, block addressable, aligned and disjoint from live memory, slot lists stay free memory), free_reusable/_release_dynamic (released block heads its class list; "
                    "dynamic block unlinked and freed), reset. ArenaVector: reserve_fit/reserve_grow/reserve_additional/resize_fit/resize_grow keep size and contents, report a capacity that is "
                    "backed by the block received, zero-fill exactly the new tail, return the old buffer with its size, and fail without change - against the allocator contract the arena units "
                    "prove. String: prepare (three representations, size/capacity/NUL invariant, append keeps contents, old heap buffer freed exactly once), _op_string/_op_chars/_op_char/"
                    "assign(Span)/pad_end/truncate against the textbook string. ArenaList<JitAllocatorBlock>::unlink/_add_node (lists of <= 3 nodes). Bit-vector primitives. Bounded heap shapes (<= 3 arena blocks, buffers <= 16..48 bytes), sizes/counts symbolic. "
                    "Partial: ArenaHash/Tree/Pool/BitSet, the ArenaList operations the library does not instantiate, number/format String operations, arguments aliasing the string.",
            "note": COMMON_NOTE + " malloc/free: CBMC's model with --malloc-may-fail --malloc-fail-null; memcpy/memset: byte-loop stubs."},
})
CLAIMS.update({
    "C03": {"category": "model_checking",
            "text": "CodeHolder::bind_label is verified against: same-section references get the displacement label - site + rel written into exactly their field (through the proved write_offset "
                    "contract), other-section references are kept and tagged, relocation-carrying fixups rebase their payload exactly once, unrepresentable displacements return "
                    "kInvalidDisplacement and stay counted, the unresolved counter drops by exactly the resolved ones, invalid label/section/double bind are rejected without change. The offset "
                    "codecs it relies on (encode_offset32/64, write_offset) are proved for all inputs. CodeHolder::resolve_cross_section_fixups is verified likewise: every pending cross-section reference is patched with (target section offset + label "
                    "offset) - (source section offset + site) + rel, overflowing or unrepresentable ones stay listed and counted, the count drops by exactly the resolved ones. "
                    "Bounded: 1 label, <= 1 (quick) / 2 (thorough) pending fixups, 2 sections, 1 relocation. The fixup iterator (next / resolve_and_next: the link invariant, unlinking, pool release) and new_fixup (recorded as given, head of the chain, counted once, failure changes nothing) are "
                    "proved completely. Partial: the reference sites inside the assemblers' _emit (which compute rel and choose the format) are not under contract.",
            "note": COMMON_NOTE},
    "C04": {"category": "model_checking",
            "text": "CodeHolder::relocate_to_base is verified per relocation entry: kAbsToAbs / kRelToAbs / kAbsToRel / kX64AddressEntry(rel32-reachable) patch exactly the value their type prescribes "
                    "for the base (incl. 32-bit wrap vs. 64-bit range error), entries leaving their section are rejected before any write, unrepresentable values are errors, only the field changes; "
                    "the write itself is the proved write_offset contract. Bounded: <= 1 entry, 2 sections, no address-table section, no expression entries. Partial: address table, JitRuntime::_add, "
                    "the emit-time paths that create entries.",
            "note": COMMON_NOTE},
    "C19": {"category": "model_checking",
            "text": "ConstPool::add is verified against: returned offsets aligned to the constant's size and inside the pool, the pool only grows, pool alignment covers every constant, a new slot comes "
                    "from free space (a registered gap or beyond the old end) and the remaining registered gaps stay well-formed and disjoint from it, a dedup hit returns the existing offset "
                    "unchanged, invalid sizes are rejected without change, allocation failure is kOutOfMemory and never a NULL dereference. The red-black tree and arena are abstracted by ASSUMED "
                    "stubs. One unit per constant size (quick: 16, 64 and all invalid sizes over 0..1 registered gaps per class; thorough: sizes 2..64 - sizes 2/4/8 over 0..1, 16/32/64 over 0..2 gaps per class; size 1 does not finish and is not covered); pre/post only (no frame check) for add(). "
                    "ConstPool::reset returns any pool to the constructed state. Partial: fill(), tree internals.",
            "technique_suffix": "; ConstPool::add: pre/postcondition assumed/asserted by a hand-written harness over the lowered code (no dfcc frame check), ConstPool::reset: dfcc",
            "note": COMMON_NOTE + " Tree::get/insert/new_node_t and Arena::alloc_oneshot<Gap> are assumed stubs (trusted abstraction); ConstPool::add runs without goto-instrument's frame check."},
    "C01": {"category": "proof",
            "text": "Only the x86 byte-emission leaves are under contract: emit_immediate / emit_imm_byte_or_dword write exactly the requested number of little-endian bytes and advance the cursor by "
                    "it, emit_pp / emit_segment_override emit the architectural prefix byte or nothing (at most one scratch byte at the cursor). These are complete proofs of those helpers. The "
                    "property as a whole (every instruction form decodes back) is NOT decided: Assembler::_emit's dispatch, REX/VEX/EVEX synthesis, ModRM/SIB and the instruction tables are outside "
                    "the reach of this technique here (DESIGN.md section 3, C01).",
            "note": COMMON_NOTE + " Partial claim: leaves only."},
    "C14": {"category": "model_checking",
            "text": "Roll-up of the argument-validation obligations discharged in other units: bind_label (invalid label id / section id / already bound -> specific error, nothing changed), "
                    "relocate_to_base (missing base address, out-of-section entry -> error before any write), copy_section_data / copy_flattened_data (invalid section, destination too small -> "
                    "error, all writes inside the destination), ConstPool::add (invalid size -> error, unchanged). Partial: the emit failure path and emitter state are not covered.",
            "note": COMMON_NOTE},
    "C15": {"category": "model_checking",
            "text": "Roll-up of the allocation-failure obligations: malloc may return NULL (CBMC --malloc-may-fail --malloc-fail-null, or 'NULL or fresh' contracts) in Arena::_alloc_oneshot / _alloc_reusable (NULL result, "
                    "chain stays well-formed, bump pointer untouched), String::prepare and the operations on it (string unchanged), ArenaVector growth (kOutOfMemory, vector unchanged), ConstPool::add "
                    "(kOutOfMemory or the constant without its shared sub-constants, no NULL dereference). Partial: CodeHolder growth "
                    "paths, JitAllocator, builder/compiler passes are not covered; 'repeat after failure gives identical code' is not decided.",
            "note": COMMON_NOTE},
    "C16": {"category": "model_checking",
            "text": "Arena::reset (hard: constructed state, every block freed exactly once, no pooled slot or dynamic block survives; soft: rewound to the first block, chain kept) and the reuse of a "
                    "soft-reset chain by Arena::_alloc_oneshot (no link to a freed block) are verified for bounded chains. Partial: CodeHolder::reset/reinit, emitters, ConstPool/JitAllocator reset "
                    "are not yet under contract.",
            "note": COMMON_NOTE},
})
NOT_APPLICABLE = {
    "C05": "whole-program semantic preservation of register allocation is a relational property over unbounded CFGs and an ISA semantics; no per-function contract in reach of CBMC expresses it",
    "C08": "byte equality of two emitters over all call sequences is a relational history property through virtual emitter interfaces and the whole assembler; not expressible as function contracts here",
    "C11": "quantifies over thread schedules; CBMC's contract instrumentation (dfcc) is sequential and has no thread model",
    "C12": "the oracle is the physical CPU / ISA database; a contract would need a formal semantics of ~1800 instructions",
    "C13": "agreement of validator, encoder and database over all forms needs _emit (4400 lines of goto-structured dispatch) and the generated tables as one relational statement; out of reach of the lowering/CBMC",
    "C02": "the AArch64 immediate / MOV-sequence / LMH encoders are proved under C17 (same units); everything else the property quantifies over (Assembler::_emit dispatch, register field packing, instruction tables) is outside the lowering/CBMC reach, so no separate claim is made",
    "C20": "needs a grammar oracle for assembler text and unbounded string/snprintf/division reasoning that CBMC cannot discharge; no contract within reach decides it",
}
