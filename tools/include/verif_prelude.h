/* Prelude of every lowered translation unit (CBMC build and native build). */
#ifndef VERIF_PRELUDE_H
#define VERIF_PRELUDE_H
#include <stdint.h>
#include <stddef.h>
#include <string.h>
#include <stdlib.h>

#ifdef VERIF_NATIVE
  /* native build: used by the fidelity differential and replay */
  extern void verif_native_assert_fail(const char* msg);
  #define VERIF_ASSERT_FAIL(msg) verif_native_assert_fail(msg)
  #define VERIF_UNREACHABLE() __builtin_unreachable()
  #define __CPROVER_assert(c, m) ((c) ? (void)0 : verif_native_assert_fail(m))
  #define __CPROVER_assume(c) ((void)0)
  #define __CPROVER_requires(...)
  #define __CPROVER_ensures(...)
  #define __CPROVER_assigns(...)
  #define __CPROVER_frees(...)
  #define __CPROVER_loop_invariant(...)
  #define __CPROVER_decreases(...)
  #define __CPROVER_havoc_object(x) ((void)0)
#else
  #define VERIF_ASSERT_FAIL(msg) (__CPROVER_assert(0, msg), __CPROVER_assume(0))
  #define VERIF_UNREACHABLE() (__CPROVER_assert(0, "unreachable reached"), __CPROVER_assume(0))
  /* libc memory functions as plain byte loops (trusted stubs). CBMC 6.11's built-in memset model with a symbolic size
   * (array_set/array_replace) was measured to clear only part of the range under dfcc (DESIGN.md); the loops are exact
   * and bounded by the unit's --unwind. Units with large symbolic sizes replace these by contracts instead. */
  #ifndef VERIF_KEEP_LIBC_MEM
  static inline void* verif_memset(void* d, int c, size_t n) { for (size_t i = 0; i < n; i++) ((unsigned char*)d)[i] = (unsigned char)c; return d; }
  static inline void* verif_memcpy(void* d, const void* s, size_t n) { for (size_t i = 0; i < n; i++) ((unsigned char*)d)[i] = ((const unsigned char*)s)[i]; return d; }
  static inline void* verif_memmove(void* d, const void* s, size_t n) {
    if ((unsigned char*)d <= (const unsigned char*)s) { for (size_t i = 0; i < n; i++) ((unsigned char*)d)[i] = ((const unsigned char*)s)[i]; }
    else { for (size_t i = n; i > 0; i--) ((unsigned char*)d)[i - 1] = ((const unsigned char*)s)[i - 1]; }
    return d;
  }
  static inline int verif_memcmp(const void* a, const void* b, size_t n) {
    for (size_t i = 0; i < n; i++) { unsigned char x = ((const unsigned char*)a)[i], y = ((const unsigned char*)b)[i]; if (x != y) return x < y ? -1 : 1; }
    return 0;
  }
  #define memset verif_memset
  #define memcpy verif_memcpy
  #define memmove verif_memmove
  #define memcmp verif_memcmp
  #endif
#endif
#endif
