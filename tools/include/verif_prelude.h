/* Prelude of every lowered translation unit (CBMC build and native build). */
#ifndef VERIF_PRELUDE_H
#define VERIF_PRELUDE_H
#include <stdint.h>
#include <stddef.h>

#ifdef VERIF_NATIVE
  /* native build: used by the fidelity differential and replay */
  extern void verif_native_assert_fail(const char* msg);
  #define VERIF_ASSERT_FAIL(msg) verif_native_assert_fail(msg)
  #define VERIF_UNREACHABLE() __builtin_unreachable()
  #define __CPROVER_assert(c, m) ((c) ? (void)0 : verif_native_assert_fail(m))
  #define __CPROVER_assume(c) ((void)0)
  #define __CPROVER_requires(...)
  #define __CPROVER_ensures(...)
  #define __CPROVER_assigns(...)
  #define __CPROVER_frees(...)
  #define __CPROVER_loop_invariant(...)
  #define __CPROVER_decreases(...)
  #define __CPROVER_havoc_object(x) ((void)0)
#else
  #define VERIF_ASSERT_FAIL(msg) (__CPROVER_assert(0, msg), __CPROVER_assume(0))
  #define VERIF_UNREACHABLE() (__CPROVER_assert(0, "unreachable reached"), __CPROVER_assume(0))
#endif
#endif
