#!/bin/bash
# usage: confirm_seed.sh <seed-id> <worktree> <outdir-of-agent> <property> -- confirms a seeded change independently:
#   (1) library builds + all existing tests pass WITH the change, (2) demo fails with the change, (3) demo passes without it.
# Writes /verif/seeded/<seed-id>/{patch.diff,demo.*,notes.md,confirm.log}; prints a one-line summary.
set -u
ID=$1; WT=$2; OUT=$3; PROP=$4
DST=/verif/seeded/$ID; mkdir -p $DST
LOG=$DST/confirm.log; : > $LOG
cp $OUT/patch.diff $DST/patch.diff
for f in $OUT/demo.cpp $OUT/demo.c $OUT/notes.md $OUT/demo.sh $OUT/*.cpp; do [ -f "$f" ] && cp -n $f $DST/ 2>/dev/null; done
cd $WT
git -C $WT checkout -q -- . 2>>$LOG; git -C $WT stash drop -q 2>/dev/null
git -C $WT apply $DST/patch.diff >>$LOG 2>&1 || { echo "$ID: patch does not apply"; exit 1; }
B=$WT/_build
cmake -G Ninja -S $WT -B $B -DASMJIT_TEST=ON -DCMAKE_BUILD_TYPE=RelWithDebInfo >>$LOG 2>&1 && cmake --build $B -j8 >>$LOG 2>&1 || { echo "$ID: build failed"; exit 1; }
ctest --test-dir $B -j8 --timeout 900 >>$LOG 2>&1; TESTS=$?
grep -E "tests passed|tests failed" $LOG | tail -1 > $DST/tests_with_change.txt
DEMO="g++ -std=c++17 -O1 -I$WT -w $DST/demo.cpp -o $DST/demo.bin -L$B -lasmjit -Wl,-rpath,$B -lpthread -lrt"
$DEMO >>$LOG 2>&1 || { DEMO="g++ -std=c++17 -O0 -I$WT -DASMJIT_STATIC -w $DST/demo.cpp $(find $WT/asmjit -name '*.cpp' | tr '\n' ' ') -o $DST/demo.bin -lpthread -lrt"; $DEMO >>$LOG 2>&1; }
$DST/demo.bin > $DST/demo_with_change.txt 2>&1; WITH=$?
git -C $WT checkout -q -- . ; cmake --build $B -j8 >>$LOG 2>&1
$DEMO >>$LOG 2>&1; $DST/demo.bin > $DST/demo_without_change.txt 2>&1; WITHOUT=$?
git -C $WT apply $DST/patch.diff
rm -f $DST/demo.bin
echo "$ID property=$PROP tests_exit=$TESTS ($(cat $DST/tests_with_change.txt)) demo_with_change_exit=$WITH demo_without_change_exit=$WITHOUT" | tee $DST/confirm_summary.txt
