// cxx2c: mechanical C++ -> C lowering of selected asmjit functions, driven by clang's AST.
// See /verif/DESIGN.md section 2.2 for what is kept, dropped and refused.
//
// usage: cxx2c <TU.cpp> --root <qualified-name> ... [--stop <qualified-name>]... --out <file.c> --meta <file.json> -- <clang args>
//
// Any construct outside the supported subset aborts with "cxx2c: UNSUPPORTED ..." and exit status 3.
#include "clang/AST/ASTConsumer.h"
#include "clang/AST/ASTContext.h"
#include "clang/AST/RecordLayout.h"
#include "clang/AST/RecursiveASTVisitor.h"
#include "clang/AST/Mangle.h"
#include "clang/Basic/Builtins.h"
#include "clang/Frontend/CompilerInstance.h"
#include "clang/Frontend/FrontendAction.h"
#include "clang/Tooling/Tooling.h"
#include <map>
#include <set>
#include <sstream>
#include <string>
#include <vector>
#include <functional>

using namespace clang;

namespace {

[[noreturn]] void die(const std::string& msg) {
  llvm::errs() << "cxx2c: UNSUPPORTED " << msg << "\n";
  llvm::errs().flush();
  exit(3);
}

struct Options {
  std::vector<std::string> roots;
  std::set<std::string> stops;      // functions emitted as prototypes only (replaced by contract / stubbed)
  std::string out, meta;
} G;

std::string sanitize(const std::string& s) {
  std::string r;
  bool us = false;
  for (char c : s) {
    if (isalnum((unsigned char)c)) { r += c; us = false; }
    else if (!us && !r.empty()) { r += '_'; us = true; }
  }
  while (!r.empty() && r.back() == '_') r.pop_back();
  return r;
}

std::string replaceAll(std::string s, const std::string& a, const std::string& b) {
  size_t p = 0;
  while ((p = s.find(a, p)) != std::string::npos) { s.replace(p, a.size(), b); p += b.size(); }
  return s;
}

std::string shortTypeNames(std::string s) {
  static const char* tbl[][2] = {
    {"unsigned long long", "ull"}, {"unsigned long", "u64"}, {"unsigned int", "u32"}, {"unsigned short", "u16"},
    {"unsigned char", "u8"}, {"signed char", "i8"}, {"long long", "ll"}, {"long", "i64"}, {"short", "i16"},
    {"int", "i32"}, {"_Bool", "bool"}, {"const ", ""}, {"struct ", ""}, {"class ", ""}, {"enum ", ""}, {"asmjit::", ""},
    {" &&", "_rr"}, {" &", "_r"}, {" *", "_p"}, {"&&", "_rr"}, {"&", "_r"}, {"*", "_p"}
  };
  // word-boundary aware replace for the builtin names
  for (auto& e : tbl) {
    std::string a = e[0], b = e[1];
    size_t p = 0;
    while ((p = s.find(a, p)) != std::string::npos) {
      bool wordy = isalpha((unsigned char)a[0]) && isalpha((unsigned char)a.back());
      bool okL = !wordy || p == 0 || !(isalnum((unsigned char)s[p-1]) || s[p-1] == '_');
      bool okR = !wordy || p + a.size() >= s.size() || !(isalnum((unsigned char)s[p+a.size()]) || s[p+a.size()] == '_');
      if (okL && okR) { s.replace(p, a.size(), b); p += b.size(); } else p += a.size();
    }
  }
  return s;
}

// ---------------------------------------------------------------------------------------------------------------

struct FuncInfo {
  const FunctionDecl* fd;
  std::string cname;
  std::string proto;     // "static T name(params)"
  std::string body;      // "{ ... }" or empty
  unsigned nloops = 0;
  bool defined = false;
  std::string qname, loc;
  std::vector<std::string> paramNames, paramDecls;
  std::string retType;
};

class Lowerer {
public:
  ASTContext& Ctx;
  PrintingPolicy PP;
  SourceManager& SM;

  std::map<const Decl*, std::string> names;
  std::set<std::string> usedNames;

  std::vector<const FunctionDecl*> funcOrder;
  std::map<const FunctionDecl*, FuncInfo> funcs;
  std::vector<const FunctionDecl*> work;

  std::map<const RecordDecl*, bool> recNeed;      // true = complete definition required
  std::vector<const RecordDecl*> recOrder;
  std::map<const VarDecl*, std::string> globalDefs;
  std::vector<const VarDecl*> globalOrder;
  std::set<std::string> externs;                  // plain C prototypes for body-less extern functions
  std::vector<std::string> externOrder;

  // per function state
  const FunctionDecl* curFn = nullptr;
  std::string curName;
  std::vector<std::string> temps;
  unsigned tempCounter = 0;
  unsigned loopCounter = 0;
  std::map<const VarDecl*, std::string> localNames;
  std::set<const ParmVarDecl*> byValParams;
  std::set<std::string> localUsed;

  Lowerer(ASTContext& C) : Ctx(C), PP(C.getLangOpts()), SM(C.getSourceManager()) {
    PP.SuppressTagKeyword = true;
    PP.Bool = true;
    PP.SuppressUnwrittenScope = true;
  }

  // ------------------------------------------------------------------------------------------------------------
  // diagnostics
  std::string locStr(SourceLocation L) {
    if (L.isInvalid()) return "?";
    PresumedLoc P = SM.getPresumedLoc(SM.getExpansionLoc(L));
    if (P.isInvalid()) return "?";
    std::string f = P.getFilename();
    size_t p = f.find("/asmjit/");
    if (p != std::string::npos) f = f.substr(p + 1);
    return f + ":" + std::to_string(P.getLine());
  }
  [[noreturn]] void unsupported(const std::string& what, SourceLocation L) {
    die(what + " at " + locStr(L) + (curFn ? " in " + curFn->getQualifiedNameAsString() : ""));
  }

  // ------------------------------------------------------------------------------------------------------------
  // names
  std::string uniq(const std::string& base) {
    std::string n = base;
    int k = 2;
    while (usedNames.count(n)) n = base + "_v" + std::to_string(k++);
    usedNames.insert(n);
    return n;
  }

  std::string qualName(const NamedDecl* D) {
    std::string s;
    llvm::raw_string_ostream os(s);
    D->printQualifiedName(os, PP);
    os.flush();
    if (s.rfind("asmjit::", 0) == 0) s = s.substr(8);
    return s;
  }

  std::string typeKey(QualType T) {
    T = T.getCanonicalType();
    std::string s = T.getAsString(PP);
    return sanitize(shortTypeNames(s));
  }

  std::string recName(const RecordDecl* RD) {
    RD = canonRec(RD);
    auto it = names.find(RD);
    if (it != names.end()) return it->second;
    std::string base;
    if (RD->getIdentifier() || isa<ClassTemplateSpecializationDecl>(RD)) {
      QualType T = Ctx.getRecordType(RD);
      base = sanitize(shortTypeNames(T.getCanonicalType().getAsString(PP)));
    } else {
      // anonymous record used as a named type (e.g. local union in bit_cast)
      base = "anon_" + sanitize(locStr(RD->getLocation()));
    }
    if (base.empty()) base = "rec";
    std::string n = uniq(base);
    names[RD] = n;
    return n;
  }

  const RecordDecl* canonRec(const RecordDecl* RD) {
    if (const RecordDecl* D = RD->getDefinition()) return D;
    return cast<RecordDecl>(RD->getCanonicalDecl());
  }

  bool isOverloaded(const FunctionDecl* FD) {
    const DeclContext* DC = FD->getDeclContext()->getRedeclContext();
    unsigned n = 0;
    for (NamedDecl* ND : DC->lookup(FD->getDeclName())) {
      if (isa<UsingShadowDecl>(ND)) continue;
      n++;
    }
    return n > 1;
  }

  std::string funcName(const FunctionDecl* FD) {
    FD = FD->getCanonicalDecl();
    auto it = names.find(FD);
    if (it != names.end()) return it->second;
    std::string base;
    if (auto* CD = dyn_cast<CXXConstructorDecl>(FD)) {
      base = recName(CD->getParent()) + "_ctor";
      for (auto* P : CD->parameters()) base += "_" + typeKey(P->getType());
    } else if (isa<CXXDestructorDecl>(FD)) {
      base = recName(cast<CXXMethodDecl>(FD)->getParent()) + "_dtor";
    } else {
      std::string q;
      if (auto* MD = dyn_cast<CXXMethodDecl>(FD)) {
        q = recName(MD->getParent()) + "_";
      } else {
        // namespace path
        std::string s = qualName(FD);
        size_t p = s.rfind("::");
        // strip the function's own name (may include operator symbols)
        std::string own = FD->getNameAsString();
        if (s.size() >= own.size() && s.compare(s.size() - own.size(), own.size(), own) == 0)
          s = s.substr(0, s.size() - own.size());
        else if (p != std::string::npos) s = s.substr(0, p + 2);
        q = sanitize(s);
        if (!q.empty()) q += "_";
      }
      std::string own;
      if (FD->isOverloadedOperator()) {
        static const std::map<int, std::string> opn = {
          {OO_Plus,"op_add"},{OO_Minus,"op_sub"},{OO_Star,"op_mul"},{OO_Slash,"op_div"},{OO_Percent,"op_mod"},
          {OO_Caret,"op_xor"},{OO_Amp,"op_and"},{OO_Pipe,"op_or"},{OO_Tilde,"op_not"},{OO_Exclaim,"op_lnot"},
          {OO_Equal,"op_assign"},{OO_Less,"op_lt"},{OO_Greater,"op_gt"},{OO_PlusEqual,"op_add_assign"},
          {OO_MinusEqual,"op_sub_assign"},{OO_StarEqual,"op_mul_assign"},{OO_SlashEqual,"op_div_assign"},
          {OO_PercentEqual,"op_mod_assign"},{OO_CaretEqual,"op_xor_assign"},{OO_AmpEqual,"op_and_assign"},
          {OO_PipeEqual,"op_or_assign"},{OO_LessLess,"op_shl"},{OO_GreaterGreater,"op_shr"},
          {OO_LessLessEqual,"op_shl_assign"},{OO_GreaterGreaterEqual,"op_shr_assign"},{OO_EqualEqual,"op_eq"},
          {OO_ExclaimEqual,"op_ne"},{OO_LessEqual,"op_le"},{OO_GreaterEqual,"op_ge"},{OO_AmpAmp,"op_land"},
          {OO_PipePipe,"op_lor"},{OO_PlusPlus,"op_inc"},{OO_MinusMinus,"op_dec"},{OO_Arrow,"op_arrow"},
          {OO_Call,"op_call"},{OO_Subscript,"op_index"},{OO_New,"op_new"},{OO_Delete,"op_delete"},
          {OO_Array_New,"op_new_array"},{OO_Array_Delete,"op_delete_array"}};
        auto f = opn.find(FD->getOverloadedOperator());
        own = f != opn.end() ? f->second : "op_unknown";
      } else if (isa<CXXConversionDecl>(FD)) {
        own = "conv_" + typeKey(FD->getReturnType());
      } else {
        own = FD->getNameAsString();
      }
      base = q + own;
      if (const TemplateArgumentList* TAL = FD->getTemplateSpecializationArgs()) {
        for (const TemplateArgument& A : TAL->asArray()) base += "_" + tmplArgKey(A);
      }
      if (isOverloaded(FD) || FD->isOverloadedOperator()) {
        base += "_";
        for (auto* P : FD->parameters()) base += "_" + typeKey(P->getType());
      }
    }
    std::string n = uniq(sanitizeKeep(base));
    names[FD] = n;
    return n;
  }

  std::string sanitizeKeep(const std::string& s) {
    std::string r;
    for (char c : s) r += (isalnum((unsigned char)c) || c == '_') ? c : '_';
    return r;
  }

  std::string tmplArgKey(const TemplateArgument& A) {
    switch (A.getKind()) {
      case TemplateArgument::Type: return typeKey(A.getAsType());
      case TemplateArgument::Integral: {
        llvm::SmallString<32> s; A.getAsIntegral().toString(s, 10);
        std::string r = s.str().str();
        if (!r.empty() && r[0] == '-') r = "m" + r.substr(1);
        return r;
      }
      case TemplateArgument::Pack: {
        std::string r;
        for (auto& P : A.pack_elements()) { if (!r.empty()) r += "_"; r += tmplArgKey(P); }
        return r.empty() ? "nil" : r;
      }
      case TemplateArgument::Template: {
        std::string s; llvm::raw_string_ostream os(s); A.print(PP, os, true); os.flush(); return sanitize(shortTypeNames(s));
      }
      case TemplateArgument::Declaration: return sanitize(A.getAsDecl()->getNameAsString());
      case TemplateArgument::NullPtr: return "null";
      default: return "targ";
    }
  }

  // ------------------------------------------------------------------------------------------------------------
  // types
  void needRecord(const RecordDecl* RD, bool complete) {
    RD = canonRec(RD);
    auto it = recNeed.find(RD);
    if (it == recNeed.end()) {
      recNeed[RD] = false;
      recName(RD);
      it = recNeed.find(RD);
    }
    if (complete && !it->second) {
      if (!RD->isCompleteDefinition()) return;   // only ever used through pointers
      it->second = true;
      // bases and by-value fields need complete definitions as well
      if (auto* CRD = dyn_cast<CXXRecordDecl>(RD)) {
        for (auto& B : CRD->bases()) {
          if (B.isVirtual()) die("virtual base in " + recName(RD));
          needRecord(B.getType()->getAsCXXRecordDecl(), true);
        }
      }
      for (auto* F : RD->fields()) (void)ctype(F->getType(), true);
      recOrder.push_back(RD);
    }
  }

  std::string builtinName(const BuiltinType* BT, SourceLocation L = SourceLocation()) {
    switch (BT->getKind()) {
      case BuiltinType::Void: return "void";
      case BuiltinType::Bool: return "_Bool";
      case BuiltinType::Char_S: case BuiltinType::Char_U: return "char";
      case BuiltinType::SChar: return "int8_t";
      case BuiltinType::UChar: return "uint8_t";
      case BuiltinType::Short: return "int16_t";
      case BuiltinType::UShort: return "uint16_t";
      case BuiltinType::Int: return "int32_t";
      case BuiltinType::UInt: return "uint32_t";
      case BuiltinType::Long: return "int64_t";
      case BuiltinType::ULong: return "uint64_t";
      case BuiltinType::LongLong: return "long long";
      case BuiltinType::ULongLong: return "unsigned long long";
      case BuiltinType::Float: return "float";
      case BuiltinType::Double: return "double";
      case BuiltinType::LongDouble: return "long double";
      case BuiltinType::NullPtr: return "void*";
      case BuiltinType::Char16: return "uint16_t";
      case BuiltinType::Char32: return "uint32_t";
      case BuiltinType::WChar_S: return "int32_t";
      case BuiltinType::WChar_U: return "uint32_t";
      case BuiltinType::Int128: return "__int128";
      case BuiltinType::UInt128: return "unsigned __int128";
      default: break;
    }
    die(std::string("builtin type ") + BT->getName(PP).str());
  }

  // C declarator for `name` of type T. `complete` = a complete record definition is required.
  std::string cdecl(QualType T, const std::string& name, bool complete = true) {
    T = T.getCanonicalType();
    const Type* Ty = T.getTypePtr();
    if (auto* BT = dyn_cast<BuiltinType>(Ty)) return join(builtinName(BT), name);
    if (auto* ET = dyn_cast<EnumType>(Ty)) return cdecl(ET->getDecl()->getIntegerType(), name, complete);
    if (auto* RT = dyn_cast<RecordType>(Ty)) {
      const RecordDecl* RD = RT->getDecl();
      needRecord(RD, complete);
      return join(std::string(RD->isUnion() ? "union " : "struct ") + recName(RD), name);
    }
    if (auto* PT = dyn_cast<PointerType>(Ty)) return cdeclPtr(PT->getPointeeType(), name);
    if (auto* RT = dyn_cast<ReferenceType>(Ty)) return cdeclPtr(RT->getPointeeType(), name);
    if (auto* AT = dyn_cast<ConstantArrayType>(Ty)) {
      llvm::SmallString<16> s; AT->getSize().toStringUnsigned(s);
      return cdecl(AT->getElementType(), name + "[" + s.str().str() + "]", complete);
    }
    if (auto* AT = dyn_cast<IncompleteArrayType>(Ty)) return cdecl(AT->getElementType(), name + "[]", complete);
    if (auto* FT = dyn_cast<FunctionProtoType>(Ty)) {
      std::string ps;
      for (unsigned i = 0; i < FT->getNumParams(); i++) { if (i) ps += ", "; ps += cdecl(FT->getParamType(i), "", true); }
      if (FT->getNumParams() == 0) ps = "void";
      if (FT->isVariadic()) ps += ", ...";
      return cdecl(FT->getReturnType(), name + "(" + ps + ")", true);
    }
    if (isa<MemberPointerType>(Ty)) die("member pointer type " + T.getAsString(PP));
    if (isa<VectorType>(Ty)) die("vector type " + T.getAsString(PP));
    die("type " + T.getAsString(PP) + " (" + Ty->getTypeClassName() + ")");
  }
  std::string cdeclPtr(QualType Pointee, const std::string& name) {
    Pointee = Pointee.getCanonicalType();
    if (isa<ArrayType>(Pointee.getTypePtr()) || isa<FunctionType>(Pointee.getTypePtr()))
      return cdecl(Pointee, "(*" + name + ")", false);
    return cdecl(Pointee, "*" + name, false);
  }
  static std::string join(const std::string& a, const std::string& b) {
    if (b.empty()) return a;
    if (b[0] == '*' || b[0] == '[' ) return a + (b[0] == '*' ? " " : "") + b;
    return a + " " + b;
  }
  std::string ctype(QualType T, bool complete = true) { return cdecl(T, "", complete); }

  bool isRef(QualType T) { return T->isReferenceType(); }

  // ------------------------------------------------------------------------------------------------------------
  // helpers on expression strings
  static bool wrapped(const std::string& s, size_t from) {
    // is s[from..] a single parenthesised group reaching the end?
    if (from >= s.size() || s[from] != '(' || s.back() != ')') return false;
    int d = 0;
    for (size_t i = from; i < s.size(); i++) {
      char c = s[i];
      if (c == '"' ) { i++; while (i < s.size() && s[i] != '"') { if (s[i] == '\\') i++; i++; } continue; }
      if (c == '\'') { i++; while (i < s.size() && s[i] != '\'') { if (s[i] == '\\') i++; i++; } continue; }
      if (c == '(') d++;
      else if (c == ')') { d--; if (d == 0 && i + 1 != s.size()) return false; }
    }
    return d == 0;
  }
  static bool isIdent(const std::string& s) {
    if (s.empty()) return false;
    for (char c : s) if (!(isalnum((unsigned char)c) || c == '_')) return false;
    return true;
  }
  static std::string paren(const std::string& s) {
    if (isIdent(s) || wrapped(s, 0)) return s;
    return "(" + s + ")";
  }
  static std::string addrOf(const std::string& s) {
    // &(*X) -> X
    if (s.size() > 3 && s[0] == '(' && s[1] == '*' && wrapped(s, 0)) {
      std::string in = s.substr(2, s.size() - 3);
      if (isIdent(in) || wrapped(in, 0)) return in;
    }
    return "(&" + paren(s) + ")";
  }
  static std::string deref(const std::string& s) {
    if (s.size() > 3 && s[0] == '(' && s[1] == '&' && wrapped(s, 0)) {
      std::string in = s.substr(2, s.size() - 3);
      if (isIdent(in) || wrapped(in, 0)) return in;
    }
    return "(*" + paren(s) + ")";
  }
  static std::string arrow(const std::string& ptr, const std::string& field) {
    // (&X)->f -> X.f
    if (ptr.size() > 3 && ptr[0] == '(' && ptr[1] == '&' && wrapped(ptr, 0)) {
      std::string in = ptr.substr(2, ptr.size() - 3);
      if (isIdent(in) || wrapped(in, 0)) return in + "." + field;
    }
    return paren(ptr) + "->" + field;
  }

  std::string newTemp(QualType T) {
    std::string n = "__t" + std::to_string(++tempCounter);
    temps.push_back(cdecl(T.getNonReferenceType().getUnqualifiedType(), n) + ";");
    return n;
  }

#include "cxx2c_expr.inc"
#include "cxx2c_stmt.inc"
#include "cxx2c_decl.inc"
};

// ---------------------------------------------------------------------------------------------------------------

struct Cons : ASTConsumer {
  void HandleTranslationUnit(ASTContext& C) override {
    if (C.getDiagnostics().hasErrorOccurred()) die("clang reported errors in the translation unit");
    Lowerer L(C);
    L.run();
  }
};
struct Act : ASTFrontendAction {
  std::unique_ptr<ASTConsumer> CreateASTConsumer(CompilerInstance&, StringRef) override { return std::make_unique<Cons>(); }
};

} // namespace

int main(int argc, const char** argv) {
  if (argc < 2) { llvm::errs() << "usage: cxx2c <TU> --root N... --out F --meta F -- <clang args>\n"; return 2; }
  std::string tu = argv[1];
  std::vector<std::string> cargs;
  int i = 2;
  for (; i < argc; i++) {
    std::string a = argv[i];
    if (a == "--") { i++; break; }
    auto next = [&]() -> std::string { if (i + 1 >= argc) die("missing value for " + a); return argv[++i]; };
    if (a == "--root") G.roots.push_back(next());
    else if (a == "--stop") G.stops.insert(next());
    else if (a == "--out") G.out = next();
    else if (a == "--meta") G.meta = next();
    else die("unknown option " + a);
  }
  for (; i < argc; i++) cargs.push_back(argv[i]);
  std::string code;
  {
    FILE* f = fopen(tu.c_str(), "r");
    if (!f) die("cannot open " + tu);
    char b[65536]; size_t n;
    while ((n = fread(b, 1, sizeof b, f)) > 0) code.append(b, n);
    fclose(f);
  }
  bool ok = clang::tooling::runToolOnCodeWithArgs(std::make_unique<Act>(), code, cargs, tu);
  return ok ? 0 : 1;
}
