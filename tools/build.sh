#!/bin/sh
# Builds /verif/.build/cxx2c from source (offline; needs clang 14 dev headers + libclang-cpp which are on the image).
set -e
cd "$(dirname "$0")/.."
mkdir -p .build
SRC="tools/cxx2c/cxx2c.cpp tools/cxx2c/cxx2c_expr.inc tools/cxx2c/cxx2c_stmt.inc tools/cxx2c/cxx2c_decl.inc"
STAMP=.build/cxx2c.stamp
NEW=$(cat $SRC | sha256sum | cut -d' ' -f1)
if [ -x .build/cxx2c ] && [ -f $STAMP ] && [ "$(cat $STAMP)" = "$NEW" ]; then exit 0; fi
clang++ -std=c++17 -O1 -fno-rtti -Wno-deprecated-declarations -I/usr/lib/llvm-14/include -Itools/cxx2c tools/cxx2c/cxx2c.cpp -o .build/cxx2c.tmp \
  /usr/lib/x86_64-linux-gnu/libclang-cpp.so.14 /usr/lib/llvm-14/lib/libLLVM-14.so
mv .build/cxx2c.tmp .build/cxx2c
echo "$NEW" > $STAMP
