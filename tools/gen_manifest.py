#!/usr/bin/env python3
"""Regenerates /verif/MANIFEST.json from the unit files and tools/claims.py (kept in sync with DESIGN.md section 3)."""
import glob, importlib.util, json, os, sys
V = os.path.dirname(os.path.dirname(os.path.abspath(__file__)))
sys.path.insert(0, V)
from tools.claims import CLAIMS, NOT_APPLICABLE  # noqa

units = []
for p in sorted(glob.glob(os.path.join(V, "units", "*.py"))):
    spec = importlib.util.spec_from_file_location("u_" + os.path.basename(p)[:-3], p)
    m = importlib.util.module_from_spec(spec); spec.loader.exec_module(m)
    units += getattr(m, "UNITS", [])
props = [json.loads(l) for l in open(os.path.join(V, "properties.jsonl"))]
claimed = sorted({p for u in units for p in u.props if p in CLAIMS})
man = {
    "version": 1,
    "setup_cmd": "python3 /verif/tools/selfcheck.py",
    "hooks": {"guard": "ASMJIT_VERIF",
              "enable": "not used - the machinery needs no source hooks (functions are lowered from the working tree by tools/cxx2c; file-local code is reached through the AST and by unity inclusion in replays)",
              "baseline_off_cmd": "cmake -G Ninja -S /repo -B /tmp/asmjit_baseline_build -DASMJIT_TEST=ON && cmake --build /tmp/asmjit_baseline_build && ctest --test-dir /tmp/asmjit_baseline_build -j8 --timeout 900; rm -rf /tmp/asmjit_baseline_build",
              "source_commits": [], "add_only": True},
    "engines": [{"name": "cbmc-contracts", "path": "/verif/vcheck", "serves_properties": claimed,
                 "kind_free_text": "CBMC 6.11 code contracts (goto-instrument --dfcc --enforce-contract / --replace-call-with-contract, cbmc with CaDiCaL) on functions lowered mechanically on every run from /repo's working tree by tools/cxx2c (clang LibTooling C++ -> C lowering); native replay of counterexamples against the real C++"}],
    "checks": [], "not_applicable": [],
    "notes": "Exit codes: 0 held (KNOWN-FINDING lines allowed), 1 VIOLATION, 2 UNDECIDED (tool limit / extraction break; never reported as a violation). See DESIGN.md.",
}
for p in props:
    pid = p["id"]
    if pid in claimed:
        c = CLAIMS[pid]
        man["checks"].append({
            "property_id": pid, "quick_cmd": "./vcheck %s --tier quick" % pid, "thorough_cmd": "./vcheck %s --tier thorough" % pid,
            "evidence_file": "evidence/%s.json" % pid, "replay_cmd_template": "./vcheck replay {path}", "engine": "cbmc-contracts",
            "level_claimed": {"category": c["category"], "text": c["text"], "design_ref": "DESIGN.md section 3, " + pid},
            "level_note": c["note"],
            "technique": "contract-based deductive verification: CBMC code contracts (dfcc) on mechanically lowered real code" + c.get("technique_suffix", "")})
    else:
        man["not_applicable"].append({"property_id": pid, "reason": NOT_APPLICABLE.get(pid, "no check built for this property yet (planned in DESIGN.md section 3)")})
json.dump(man, open(os.path.join(V, "MANIFEST.json"), "w"), indent=1)
print("claimed:", claimed)
