#!/usr/bin/env python3
"""setup_cmd: verify the tool chain and build cxx2c (offline)."""
import os, shutil, subprocess, sys
V = os.path.dirname(os.path.dirname(os.path.abspath(__file__)))
missing = [t for t in ("cbmc", "goto-cc", "goto-instrument", "clang++", "g++", "gcc") if not shutil.which(t)]
if missing:
    print("missing tools:", missing); sys.exit(1)
rc = subprocess.call([os.path.join(V, "tools", "build.sh")])
if rc != 0:
    print("cxx2c build failed"); sys.exit(1)
print("setup ok:", subprocess.check_output(["cbmc", "--version"]).decode().strip())
