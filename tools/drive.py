"""Unit scheduler: lower (cxx2c) -> goto-cc -> goto-instrument --dfcc -> cbmc; result parsing; evidence; replay.

Exit status conventions (see DESIGN.md 2.9): 0 held, 1 violation, 2 undecided (tool limit / extraction break).
"""
import hashlib
import json
import os
import re
import resource
import shutil
import subprocess
import sys
import time
from concurrent.futures import ThreadPoolExecutor

VERIF = os.path.dirname(os.path.dirname(os.path.abspath(__file__)))
REPO = os.environ.get("VERIF_REPO", "/repo")
CXX2C = os.path.join(VERIF, ".build", "cxx2c")
CLANG_ARGS = ["-std=c++17", "-I" + REPO, "-I" + VERIF, "-DASMJIT_STATIC", "-DASMJIT_BUILD_DEBUG",
              "-resource-dir", "/usr/lib/llvm-14/lib/clang/14.0.6", "-Wno-everything"]
CBMC_FLAGS = ["--bounds-check", "--pointer-check", "--signed-overflow-check", "--undefined-shift-check",
              "--div-by-zero-check", "--pointer-overflow-check", "--unwinding-assertions"]
CANARY = "VERIF_CANARY"


class Unit:
    """One function under contract (target) verified against its contract with dfcc."""

    def __init__(self, name, props, tu, roots, target, contracts, harness=None, replace=(), stops=(), unwind=None,
                 defines=(), quick_defines=(), thorough_defines=(), tiers=("quick", "thorough"), replay=None,
                 kind="proof", bound_note="", timeout=None, extra_cbmc=(), loop_contracts=False, trusted=(),
                 note="", mutants=(), solver=None, object_bits=None, no_canary=False, known=(), spec_target=False, unwindset=(), quick_unwind=None, mem_gb=None, quick_unwindset=(), thorough_object_bits=None, thorough_timeout=None, dfcc=True, quick_kind=None, quick_bound_note=""):
        self.name = name
        self.props = list(props)
        self.tu = tu
        self.roots = list(roots)
        self.target = target
        self.contracts = contracts
        self.harness = harness
        self.replace = list(replace)
        self.stops = list(stops)
        self.unwind = unwind
        self.defines = list(defines)
        self.quick_defines = list(quick_defines)
        self.thorough_defines = list(thorough_defines)
        self.tiers = tiers
        self.replay = replay
        self.kind = kind            # "proof" (complete) or "bounded" (stated bound, never counted as proved)
        self.bound_note = bound_note
        self.timeout = timeout
        self.extra_cbmc = list(extra_cbmc)
        self.loop_contracts = loop_contracts
        self.trusted = list(trusted)
        self.note = note
        self.mutants = list(mutants)    # [(label, regex, replacement)] applied to the lowered C text; must be refuted
        self.solver = solver
        self.object_bits = object_bits
        self.thorough_object_bits = thorough_object_bits
        self.thorough_timeout = thorough_timeout
        self.quick_kind = quick_kind          # e.g. "bounded": the quick tier explores a bounded part of what the thorough tier proves
        self.quick_bound_note = quick_bound_note
        self.dfcc = dfcc        # False: the harness assumes the precondition and asserts the postcondition itself (no frame check)
        self.no_canary = no_canary
        self.known = list(known)
        self.unwindset = list(unwindset)    # e.g. ['verif_memset.0:66']
        self.quick_unwind = quick_unwind
        self.quick_unwindset = list(quick_unwindset)
        self.mem_gb = mem_gb
        self.spec_target = spec_target   # target is a lemma defined in the contracts header, not a lowered function


class Undecided(Exception):
    pass


def run(cmd, cwd=None, timeout=None, mem_gb=None, env=None):
    def limits():
        if mem_gb:
            b = int(mem_gb * (1 << 30))
            resource.setrlimit(resource.RLIMIT_AS, (b, b))
    t0 = time.time()
    try:
        p = subprocess.run(cmd, cwd=cwd, stdout=subprocess.PIPE, stderr=subprocess.PIPE, timeout=timeout,
                           preexec_fn=limits, env=env)
        return p.returncode, p.stdout.decode("utf-8", "replace"), p.stderr.decode("utf-8", "replace"), time.time() - t0
    except subprocess.TimeoutExpired as e:
        out = (e.stdout or b"").decode("utf-8", "replace")
        return -9, out, "TIMEOUT after %ss" % timeout, time.time() - t0


class Runner:
    def __init__(self, tier, workdir, seed=0, jobs=16, verbose=False):
        self.tier = tier
        self.work = workdir
        self.seed = seed
        self.jobs = jobs
        self.verbose = verbose
        self.lower_cache = {}
        os.makedirs(workdir, exist_ok=True)

    # ------------------------------------------------------------------------------------------------------
    def lower(self, unit, outdir):
        """Run cxx2c for the unit's TU/roots/stops. Returns (path of lowered C, meta dict)."""
        key = json.dumps([unit.tu, unit.roots, unit.stops])
        h = hashlib.sha1(key.encode()).hexdigest()[:12]
        d = os.path.join(self.work, "low_" + h)
        if key in self.lower_cache:
            return self.lower_cache[key]
        os.makedirs(d, exist_ok=True)
        tu = unit.tu
        tu_path = os.path.join(VERIF, tu) if tu.startswith("inst/") else os.path.join(REPO, tu)
        if not os.path.exists(tu_path):
            raise Undecided("translation unit missing: " + tu_path)
        cmd = [CXX2C, tu_path]
        for r in unit.roots:
            cmd += ["--root", r]
        for s in unit.stops:
            cmd += ["--stop", s]
        lowc, meta = os.path.join(d, "lowered.c"), os.path.join(d, "lowered.json")
        cmd += ["--out", lowc, "--meta", meta, "--"] + CLANG_ARGS
        rc, out, err, dt = run(cmd, timeout=300)
        if rc != 0:
            raise Undecided("lowering failed for %s: %s" % (unit.name, (err or out).strip().splitlines()[-1:] or rc))
        with open(meta) as f:
            m = json.load(f)
        self.lower_cache[key] = (lowc, m, dt)
        return self.lower_cache[key]

    # ------------------------------------------------------------------------------------------------------
    def run_unit(self, unit, mutate=None, extra_defines=()):
        """Returns a result dict. Raises Undecided on tool problems."""
        t0 = time.time()
        tag = unit.name + ("" if mutate is None else ".mut_" + mutate[0]) + ("".join("." + re.sub(r"\W", "", d) for d in extra_defines))
        d = os.path.join(self.work, tag)
        os.makedirs(d, exist_ok=True)
        lowc, meta, lower_s = self.lower(unit, d)
        fn_by_c = {f["cname"]: f for f in meta["functions"]}
        if unit.spec_target:
            fn_by_c[unit.target] = {"cname": unit.target, "qname": "(spec lemma) " + unit.target, "loc": unit.contracts, "defined": True, "params": [], "pdecls": []}
        if unit.target not in fn_by_c:
            raise Undecided("target %s not in lowered closure of %s (renamed?)" % (unit.target, unit.name))
        if not fn_by_c[unit.target]["defined"]:
            raise Undecided("target %s has no body" % unit.target)
        for r in unit.replace:
            if r not in fn_by_c and r not in ("memcpy", "memset", "memmove", "memcmp", "malloc", "free", "realloc"):
                raise Undecided("replaced callee %s not called from the lowered closure of %s (renamed or call removed)" % (r, unit.name))
        # contract macro names must refer to existing functions
        ctext = open(os.path.join(VERIF, unit.contracts)).read()
        for mname in re.findall(r"#define\s+CONTRACT_(\w+)", ctext):
            pass  # contracts headers are shared between units: unknown names are fine here, checked per target below
        if not unit.spec_target and not re.search(r"#define\s+CONTRACT_%s\b" % re.escape(unit.target), ctext) and not self._contract_in_includes(unit, ctext):
            raise Undecided("no contract for target %s in %s" % (unit.target, unit.contracts))
        text = open(lowc).read()
        if mutate is not None:
            new, n = re.subn(mutate[1], mutate[2], text, count=1)
            if n == 0:
                raise Undecided("mutant %s of %s does not apply" % (mutate[0], unit.name))
            text = new
        low_local = os.path.join(d, "lowered.c")
        with open(low_local, "w") as f:
            f.write(text)
        unit_c = os.path.join(d, "unit.c")
        with open(unit_c, "w") as f:
            f.write('#include "lowered.c"\n')
            f.write('#define VERIF_CANARY() __CPROVER_assert(0, "%s reachable")\n' % CANARY)
            if unit.harness:
                f.write('#include "%s"\n' % os.path.join(VERIF, unit.harness))
            else:
                # default harness: unconstrained arguments (the contract's requires clauses shape them), ghost init, call, canary
                fi = fn_by_c[unit.target]
                f.write("#ifndef VERIF_GHOST_INIT\n#define VERIF_GHOST_INIT()\n#endif\n")
                f.write("void HARNESS(void) {\n")
                f.write("  unsigned char nondet_uchar(void);\n")
                for dcl in fi["pdecls"]:
                    if dcl.startswith("_Bool ") and "*" not in dcl:
                        f.write("  %s = (nondet_uchar() & 1);  /* a valid bool: 0 or 1 */\n" % dcl)
                    else:
                        f.write("  %s;\n" % dcl)
                # optional: the contracts header may pin an argument to a constant (one unit per value) so that symbolic execution
                # can propagate it; the harness locals carry the parameter names
                f.write("#ifdef VERIF_HARNESS_SETUP\n  VERIF_HARNESS_SETUP();\n#endif\n")
                f.write("  VERIF_GHOST_INIT();\n")
                f.write("  %s(%s);\n  VERIF_CANARY();\n}\n" % (unit.target, ", ".join(fi["params"])))
        defs = list(unit.defines) + list(unit.quick_defines if self.tier == "quick" else unit.thorough_defines) + list(extra_defines)
        entry = "h_unit"
        cmd = ["goto-cc", "-I" + os.path.join(VERIF, "tools", "include"), "-I" + VERIF, "-I" + d,
               '-DVERIF_CONTRACTS="%s"' % os.path.join(VERIF, unit.contracts), "-DHARNESS=" + entry,
               "-DVERIF_TIER_" + self.tier.upper()] + ([] if unit.dfcc else ["-DVERIF_NO_DFCC=1"]) + ["-D" + x for x in defs] + ["--function", entry, unit_c, "-o", os.path.join(d, "a.gb")]
        rc, out, err, _ = run(cmd, timeout=300)
        if rc != 0:
            raise Undecided("goto-cc failed for %s: %s" % (tag, (out + err).strip()[-600:]))
        cmd = ["goto-instrument", "--dfcc", entry, "--enforce-contract", unit.target]
        for r in unit.replace:
            cmd += ["--replace-call-with-contract", r]
        if unit.loop_contracts:
            cmd += ["--apply-loop-contracts"]
        cmd += [os.path.join(d, "a.gb"), os.path.join(d, "b.gb")]
        if unit.dfcc:
            rc, out, err, _ = run(cmd, timeout=600)
        else:
            import shutil
            shutil.copyfile(os.path.join(d, "a.gb"), os.path.join(d, "b.gb"))
            rc, out, err = 0, "", ""
            cmd = ["(no contract instrumentation: pre/postcondition assumed/asserted by the harness)", "", ""]
        gi_log = out + err
        if rc != 0:
            raise Undecided("goto-instrument failed for %s: %s" % (tag, gi_log.strip()[-800:]))
        if "not side-effect free" in gi_log or "ignoring" in gi_log.lower():
            raise Undecided("goto-instrument dropped part of a contract for %s: %s" % (tag, gi_log.strip()[-400:]))
        flags = list(CBMC_FLAGS) + list(unit.extra_cbmc)
        uw = unit.quick_unwind if (self.tier == "quick" and unit.quick_unwind is not None) else unit.unwind
        if uw is not None:
            flags += ["--unwind", str(uw)]
        uws = list(unit.unwindset) + (list(unit.quick_unwindset) if self.tier == "quick" else [])
        if uws:
            flags += ["--unwindset", ",".join(uws)]
        ob = unit.object_bits
        if self.tier == "thorough" and unit.thorough_object_bits:
            ob = unit.thorough_object_bits
        if ob:
            flags += ["--object-bits", str(ob)]
        if unit.solver:
            flags += unit.solver if isinstance(unit.solver, list) else [unit.solver]
        else:
            flags += ["--sat-solver", "cadical"]   # measured: 17 s vs 345 s (MiniSat) on encode_offset64
        timeout = unit.timeout or (900 if self.tier == "quick" else 3600)
        if self.tier == "thorough" and unit.thorough_timeout:
            timeout = unit.thorough_timeout
        mem = unit.mem_gb or (12 if self.tier == "quick" else 24)
        cbmc_cmd = ["cbmc", os.path.join(d, "b.gb")] + flags + ["--json-ui"]
        rc, out, err, solve_s = run(cbmc_cmd, timeout=timeout, mem_gb=mem)
        with open(os.path.join(d, "cbmc.json"), "w") as f:
            f.write(out)
        if rc == -9:
            raise Undecided("cbmc timeout (%ss) for %s" % (timeout, tag))
        if "ran out of memory" in out or "std::bad_alloc" in out + err:
            raise Undecided("cbmc ran out of memory (%s GB cap) for %s" % (mem, tag))
        props = self._parse_results(out)
        if props is None:
            errs = re.findall(r'"messageText": "([^"]{0,300})",\s*"messageType": "ERROR"', out)
            raise Undecided("cbmc gave no result list for %s (rc=%s): %s" % (tag, rc, "; ".join(errs) or (out[-300:] + err[-300:]).strip()))
        if "ignoring" in out and "forall" in out:
            raise Undecided("cbmc ignored a quantifier in %s" % tag)
        odd = [p for p in props if p["status"] not in ("SUCCESS", "FAILURE")]
        real_fail = [p for p in props if p["status"] == "FAILURE" and CANARY not in p["description"]]
        # CBMC 6 reports obligations that are only reachable through a violated one as UNKNOWN: with a real FAILURE present they are
        # consequences of it (and are dropped from the failed list); without one they mean the solver gave up
        if odd and not real_fail:
            raise Undecided("cbmc left %d obligations undecided (status %s) in %s - solver resource limit?" % (len(odd), odd[0]["status"], tag))
        canary = [p for p in props if CANARY in p["description"]]
        oblig = [p for p in props if CANARY not in p["description"]]
        unw = [p for p in oblig if p["status"] != "SUCCESS" and "unwinding assertion" in p["description"]]
        # a failed unwinding assertion leaves the exploration incomplete: undecided - unless a genuine obligation failed as well
        # (counterexamples found below the bound are real executions), in which case that failure is reported
        other_fail = [p for p in oblig if p["status"] == "FAILURE" and "unwinding assertion" not in p["description"]]
        if unw and not other_fail:
            raise Undecided("unwinding bound %s too small in %s: %s" % (uw, tag, ", ".join(p["property"] for p in unw[:4])))
        if unw:
            oblig = [p for p in oblig if p not in unw]
        if not unit.no_canary:
            if not canary:
                raise Undecided("no canary obligation in %s" % tag)
            if any(p["status"] != "FAILURE" for p in canary):
                raise Undecided("vacuity: canary after the call is unreachable in %s (contradictory requires/assumptions)" % tag)
        post = [p for p in oblig if "ensures clause" in p["description"] or ".postcondition" in p["property"] or
                (not unit.dfcc and p["description"].startswith("postcondition"))]
        n_ens = 1 if unit.spec_target else self._count_ensures(unit, ctext)
        if n_ens and len(post) < 1:
            raise Undecided("no postcondition obligations generated for %s" % tag)
        if unit.loop_contracts and not any("loop invariant" in p["description"].lower() for p in oblig):
            raise Undecided("loop contracts requested but no loop-invariant obligations generated for %s" % tag)
        failed = [p for p in oblig if p["status"] == "FAILURE"]
        res = {
            "unit": unit.name, "tag": tag, "target": unit.target, "dir": d,
            "obligations": len(oblig), "discharged": len(oblig) - len(failed), "postconditions": len(post),
            "failed": failed, "solver_s": round(solve_s, 2), "lower_s": round(lower_s, 2), "wall_s": round(time.time() - t0, 2),
            "cbmc_cmd": " ".join(["cbmc", "b.gb"] + flags), "functions": meta["functions"], "externs": meta["externs"],
            "qname": fn_by_c[unit.target]["qname"], "loc": fn_by_c[unit.target]["loc"],
            "dfcc_cmd": " ".join(cmd[:-2]),
        }
        return res

    def _contract_in_includes(self, unit, ctext):
        for inc in re.findall(r'#include\s+"([^"]+)"', ctext):
            p = os.path.join(VERIF, inc)
            if os.path.exists(p) and re.search(r"#define\s+CONTRACT_%s\b" % re.escape(unit.target), open(p).read()):
                return True
        return False

    def _count_ensures(self, unit, ctext):
        m = re.search(r"#define\s+CONTRACT_%s\b((?:.*\\\n)*.*)" % re.escape(unit.target), ctext)
        return m.group(1).count("__CPROVER_ensures") if m else 0

    @staticmethod
    def _parse_results(out):
        try:
            data = json.loads(out)
        except Exception:
            return None
        for item in data:
            if isinstance(item, dict) and "result" in item:
                res = []
                for p in item["result"]:
                    loc = p.get("sourceLocation", {})
                    res.append({"property": p.get("property", ""), "description": p.get("description", ""),
                                "status": p.get("status", ""), "file": loc.get("file", ""), "line": loc.get("line", ""),
                                "function": loc.get("function", "")})
                return res
        return None

    # ------------------------------------------------------------------------------------------------------
    def trace_inputs(self, unit, res, prop_id):
        """Re-run cbmc for one failed property with --trace; return (inputs dict, text excerpt)."""
        d = res["dir"]
        flags = res["cbmc_cmd"].split()[2:]
        cmd = ["cbmc", os.path.join(d, "b.gb")] + flags + ["--property", prop_id, "--trace", "--json-ui"]
        rc, out, err, _ = run(cmd, timeout=unit.timeout or 1800, mem_gb=24)
        try:
            data = json.loads(out)
        except Exception:
            return None, (out[-2000:] + err[-500:])
        trace = None
        for item in data:
            if isinstance(item, dict) and "result" in item:
                for p in item["result"]:
                    if p.get("property") == prop_id and "trace" in p:
                        trace = p["trace"]
        if trace is None:
            return None, "no trace in cbmc output"
        params = ([f for f in res["functions"] if f["cname"] == unit.target] or [{"params": []}])[0]["params"]
        state, snap = {}, None
        seen_params = None
        import collections
        excerpt = collections.deque(maxlen=300)
        wrapped = unit.target + ("_wrapped_for_contract_checking" if unit.dfcc else "")
        for st in trace:
            if st.get("stepType") == "function-call" and snap is None:
                if st.get("function", {}).get("identifier") == wrapped:
                    seen_params = set()
                    if not params:
                        snap = dict(state)
                continue
            if st.get("stepType") != "assignment":
                continue
            lhs = st.get("lhs", "")
            val = st.get("value", {})
            if st.get("hidden") and "dynamic_object" not in lhs:
                continue
            if lhs.startswith("__dfcc") or lhs.startswith("__CPROVER") or "write_set" in lhs:
                continue
            flat = {}
            flatten_value(lhs, val, flat)
            state.update(flat)
            base = re.split(r"[.\[]", lhs, 1)[0]
            if snap is None and seen_params is not None and st.get("assignmentType") == "actual-parameter" and base in params:
                seen_params.add(base)
                if len(seen_params) == len(params):
                    snap = dict(state)
            if not lhs.startswith("tmp_") and snap is not None:
                for k, v in flat.items():
                    excerpt.append("%s=%s" % (k, v))
        if snap is None:
            return None, "\n".join(excerpt)
        inputs = {}
        for p in params:
            if p in snap:
                inputs[p] = snap[p]
            for k, val in snap.items():
                if k.startswith(p + ".") or k.startswith(p + "["):
                    inputs[k] = val
        # ghost globals (g_*) carry the contract's snapshot of the entry state
        for k, val in snap.items():
            if k.startswith("g_"):
                inputs[k] = val
        # pointees, transitively: a value naming dynamic_object$N / a local object brings in that object's fields under "<path>@"
        work = [(k, str(v)) for k, v in list(inputs.items())]
        seen_obj = set()
        while work:
            path, v = work.pop()
            m = re.search(r"(dynamic_object\$?\d*|[A-Za-z_]\w*!\d+@\d+)", v)
            if not m:
                continue
            obj = m.group(1)
            if (path, obj) in seen_obj or len(inputs) > 4000:
                continue
            seen_obj.add((path, obj))
            for k, val in snap.items():
                if k == obj:
                    nk = path + "@"
                elif k.startswith(obj + ".") or k.startswith(obj + "["):
                    nk = path + "@" + k[len(obj):]
                else:
                    continue
                if nk not in inputs:
                    inputs[nk] = val
                    work.append((nk, str(val)))
        return inputs, "\n".join(excerpt)


def flatten_value(lhs, val, out):
    """cbmc JSON value -> {path: scalar text}"""
    if not isinstance(val, dict):
        return
    if "members" in val:
        for m in val["members"]:
            flatten_value(lhs + "." + m.get("name", "?"), m.get("value", {}), out)
    elif "elements" in val:
        for e in val["elements"]:
            flatten_value("%s[%s]" % (lhs, e.get("index", "?")), e.get("value", {}), out)
    elif "data" in val:
        out[re.sub(r"\[(\d+)l\]", r"[\1]", lhs)] = val["data"]
    elif val.get("name") == "unknown":
        pass


def clean_value(v):
    """cbmc value text -> C literal"""
    s = str(v)
    m = re.match(r"^(-?\d+)(u|ul|l|ull|ll)?$", s)
    if m:
        n = int(m.group(1))
        suf = {"u": "U", "ul": "UL", "l": "L", "ull": "ULL", "ll": "LL", None: ""}[m.group(2)]
        if n == -(1 << 63):
            return "(-9223372036854775807L-1)"
        if n == -(1 << 31) and suf == "":
            return "(-2147483647-1)"
        return "%d%s" % (n, suf)
    if s in ("TRUE", "true"):
        return "1"
    if s in ("FALSE", "false"):
        return "0"
    if "NULL" in s:
        return "0"
    return None


def inputs_to_defines(inputs):
    """{'offset64': '5l', 'format@._type': '0'} -> ['IN_offset64=5L', 'IN_format__type=0']"""
    defs = {}
    for k, v in inputs.items():
        c = clean_value(v)
        if c is None:
            continue
        name = "IN_" + re.sub(r"\W+", "_", k.replace("@", "")).strip("_")
        defs[name] = c
    return defs
