/* Environment of ConstPool::add: builds the pre-state with constant shapes (which records exist is symbolic, what they hold is
 * symbolic, how they are linked is concrete) - see contracts/c19_constpool.h. */
unsigned char nondet_uchar(void); uint64_t nondet_u64(void);
struct ConstPool_Node *ConstPool_Tree_get(struct ConstPool_Tree *self, void *data) {
  __CPROVER_assert(data != NULL, "Tree::get: data != NULL");
  unsigned c = g_get_calls++;
  if (c >= 64 || !((g_hit_mask >> c) & 1)) return NULL;
  __CPROVER_assume(g_pool._alignment >= self->_data_size);    /* a hit is a node of this tree's size class: the add() that placed it raised the pool alignment to at least that size */
  return &g_hitobj.n;
}
void ConstPool_Tree_insert(struct ConstPool_Tree *self, struct ConstPool_Node *node) {
  __CPROVER_assert(node != NULL, "Tree::insert: node != NULL (the tree links the node in)");
  node->__b0.__b0._tree_nodes[0] = nondet_u64(); node->__b0.__b0._tree_nodes[1] = nondet_u64();
  self->_size++;
}
struct ConstPool_Node *ConstPool_Tree_new_node_t(struct Arena *arena, void *data, uint64_t size, uint64_t offset, _Bool shared) {
  __CPROVER_assert(data != NULL && size >= 1 && size <= 64, "Tree::new_node_t: valid arguments");
  unsigned j = g_alloc_calls++;
  if (j >= 64 || ((g_fail_mask >> j) & 1)) return NULL;
  struct c_node_slot* s = malloc(sizeof(struct c_node_slot));
  __CPROVER_assume(s != NULL);
  s->n._offset = (uint32_t)offset; s->n._shared = shared;
  return &s->n;
}
struct ConstPool_Gap *Arena_alloc_oneshot_ConstPool_Gap_(struct Arena *self) {
  unsigned j = g_alloc_calls++;
  if (j >= 64 || ((g_fail_mask >> j) & 1)) return NULL;
  struct ConstPool_Gap* g = malloc(sizeof(struct ConstPool_Gap));
  __CPROVER_assume(g != NULL);
  return g;
}
void HARNESS(void) {
  g_pool._arena = (struct Arena*)g_arena_obj;
  g_pool._size = nondet_u64(); g_pool._alignment = nondet_u64(); g_pool._min_item_size = nondet_u64();
  __CPROVER_assume(g_pool._size <= ((uint64_t)1 << 30));
  for (unsigned i = 0; i < NCLS; i++) {
    g_n[i] = nondet_uchar(); __CPROVER_assume(g_n[i] <= NPER);
    for (unsigned k = 0; k < NPER; k++) {
      struct ConstPool_Gap* g = &g_G[i][k];
      g->_size = (uint64_t)1 << i;                                   /* a gap of class i is 2^i bytes */
      g->_offset = nondet_u64();
      __CPROVER_assume((g->_offset & (g->_size - 1)) == 0 && g->_offset <= g_pool._size && g->_size <= g_pool._size - g->_offset);
      g->_next = (k + 1 < NPER && g_n[i] > k + 1) ? &g_G[i][k + 1] : NULL;
      g_goff[i][k] = g->_offset;
    }
    g_pool._gaps[i] = g_n[i] >= 1 ? &g_G[i][0] : NULL;
    g_head0[i] = g_pool._gaps[i];
    g_pool._tree[i]._data_size = (uint64_t)1 << i;
    g_pool._tree[i]._size = nondet_u64(); __CPROVER_assume(g_pool._tree[i]._size < ((uint64_t)1 << 40));
  }
  /* registered gaps never overlap each other */
  for (unsigned a = 0; a < NCLS * NPER; a++) for (unsigned b = a + 1; b < NCLS * NPER; b++) {
    const struct ConstPool_Gap* x = &g_G[a / NPER][a % NPER]; const struct ConstPool_Gap* y = &g_G[b / NPER][b % NPER];
    if ((a % NPER) < g_n[a / NPER] && (b % NPER) < g_n[b / NPER]) __CPROVER_assume(x->_offset + x->_size <= y->_offset || y->_offset + y->_size <= x->_offset);
  }
  g_spare._next = NULL;
  g_has_spare = nondet_uchar() & 1;
  g_pool._gap_pool = g_has_spare ? &g_spare : NULL;
  g_fail_mask = nondet_u64(); g_hit_mask = nondet_u64(); g_alloc_calls = 0; g_get_calls = 0;
  g_size0 = g_pool._size; g_align0 = g_pool._alignment;
#ifdef VERIF_CONSTSIZE
  uint64_t size = VERIF_CONSTSIZE;
#else
  uint64_t size = nondet_u64();
  __CPROVER_assume(!(size >= 1 && size <= 64 && (size & (size - 1)) == 0));
#endif
  g_req_size = size;
  /* a node Tree::get may find was placed by an earlier add() of this size */
  g_hitobj.n._offset = (uint32_t)nondet_u64();
  if (size >= 1 && size <= 64 && (size & (size - 1)) == 0) __CPROVER_assume(((uint64_t)g_hitobj.n._offset & (size - 1)) == 0 && g_hitobj.n._offset <= g_pool._size && size <= g_pool._size - g_hitobj.n._offset);
  struct Out_u64 out; out._val = &g_out;
  uint32_t ret = ConstPool_add(&g_pool, (void*)g_data, size, out);
#ifdef VERIF_NO_DFCC
  int post = c_add_post(&g_pool, size, g_out, ret);
  __CPROVER_assert(post == 0, "postcondition c_add_post == 0");
#endif
  VERIF_CANARY();
}
