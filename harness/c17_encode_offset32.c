void HARNESS(void) {
  uint32_t* dst; int64_t offset64; struct OffsetFormat* format;
  CodeWriterUtils_encode_offset32(dst, offset64, format);
  VERIF_CANARY();
}
