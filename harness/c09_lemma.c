void HARNESS(void) {
  size_t w, index, count; uint64_t x;
  lemma_range_mask(w, index, count, x);
  VERIF_CANARY();
}
