/* Independent decoders for asmjit OffsetFormat fields. Written from the field diagrams of the A64 ISA
 * (ADR/ADRP: immlo = bits 30:29, immhi = bits 23:5, imm = SignExtend(immhi:immlo, 21)) and from the definition
 * of a plain two's-complement / unsigned bit-field. Pure C, shared by CBMC contracts and native replay. */
#ifndef SPEC_OFFSET_H
#define SPEC_OFFSET_H
#include "spec/specdefs.h"

enum { SPEC_OT_SIGNED = 0, SPEC_OT_UNSIGNED = 1, SPEC_OT_A64_ADR = 2, SPEC_OT_A64_ADRP = 3, SPEC_OT_MAX = 11 };

static inline uint64_t spec_low_mask64(unsigned n) { return n >= 64 ? ~(uint64_t)0 : (((uint64_t)1 << n) - 1); }

/* bits of the word that belong to the immediate field */
static inline uint64_t spec_field_mask(unsigned type, unsigned bit_count, unsigned bit_shift) {
  if (type == SPEC_OT_A64_ADR || type == SPEC_OT_A64_ADRP) return ((uint64_t)3 << 29) | ((uint64_t)0x7FFFF << 5);
  return spec_low_mask64(bit_count) << bit_shift;
}

/* well-formed format for a word of `word_bits` bits (the formats both backends construct) */
static inline _Bool spec_format_wf(unsigned type, unsigned value_size, unsigned bit_count, unsigned bit_shift, unsigned discard, unsigned word_bits) {
  if (value_size * 8 > word_bits) return 0;
  if (value_size != 1 && value_size != 2 && value_size != 4 && value_size != 8) return 0;
  if (discard > 32) return 0;
  if (type == SPEC_OT_A64_ADR || type == SPEC_OT_A64_ADRP) return value_size == 4 && bit_count == 21 && bit_shift == 5;
  if (type != SPEC_OT_SIGNED && type != SPEC_OT_UNSIGNED) return 0;
  return bit_count >= 1 && bit_count + bit_shift <= value_size * 8;
}

/* value of the raw immediate field before scaling (sign/zero extended) */
static inline int64_t spec_field_value(uint64_t word, unsigned type, unsigned bit_count, unsigned bit_shift) {
  uint64_t raw;
  unsigned n = bit_count;
  if (type == SPEC_OT_A64_ADR || type == SPEC_OT_A64_ADRP) {
    uint64_t immlo = (word >> 29) & 3, immhi = (word >> 5) & 0x7FFFF;
    raw = (immhi << 2) | immlo;
    n = 21;
  } else {
    raw = (word >> bit_shift) & spec_low_mask64(bit_count);
  }
  if (type == SPEC_OT_UNSIGNED) return (int64_t)raw;      /* bit_count == 64 unsigned: see spec_representable */
  if (n < 64 && ((raw >> (n - 1)) & 1)) raw |= ~spec_low_mask64(n);
  return (int64_t)raw;
}

/* the displacement a decoder reads back from `word` */
static inline int64_t spec_offset_decode(uint64_t word, unsigned type, unsigned bit_count, unsigned bit_shift, unsigned discard) {
  uint64_t v = (uint64_t)spec_field_value(word, type, bit_count, bit_shift);
  return (int64_t)(v << (discard >= 64 ? 0 : discard));
}

/* can `off` be represented at all? (low `discard` bits zero; quotient within the signed / unsigned field range) */
static inline _Bool spec_representable(int64_t off, unsigned type, unsigned bit_count, unsigned discard) {
  unsigned n = (type == SPEC_OT_A64_ADR || type == SPEC_OT_A64_ADRP) ? 21 : bit_count;
  if (discard && ((uint64_t)off & spec_low_mask64(discard)) != 0) return 0;
  if (type == SPEC_OT_UNSIGNED) {
    uint64_t q = (uint64_t)off >> discard;                /* unsigned interpretation of the 64-bit displacement */
    return n >= 64 || q <= spec_low_mask64(n);
  } else {
    int64_t q = off >> discard;                           /* arithmetic shift */
    if (n >= 64) return 1;
    int64_t lo = -((int64_t)1 << (n - 1)), hi = ((int64_t)1 << (n - 1)) - 1;
    return q >= lo && q <= hi;
  }
}
#endif
