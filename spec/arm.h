/* Independent reference semantics for the AArch64/AArch32 immediate encodings (written from the Arm ARM pseudo-code:
 * DecodeBitMasks, VFPExpandImm, MOVZ/MOVN/MOVK, A32 modified immediate, AdvSIMD by-element H:L:M). Pure C. */
#ifndef SPEC_ARM_H
#define SPEC_ARM_H
#include "spec/specdefs.h"

static inline uint64_t spec_ones64(unsigned n) { return n >= 64 ? ~(uint64_t)0 : (((uint64_t)1 << n) - 1); }
static inline uint32_t spec_ror32(uint32_t v, unsigned n) { n &= 31; return n ? (v >> n) | (v << (32 - n)) : v; }

/* ---- DecodeBitMasks(immN, imms, immr, immediate=TRUE) for datasize M in {32,64} -------------------------------- */
/* returns 0 when the combination is UNDEFINED/reserved, else 1 and *wmask */
static inline _Bool spec_decode_bitmasks(unsigned immN, unsigned imms, unsigned immr, unsigned M, uint64_t* wmask) {
  if (immN > 1 || imms > 63 || immr > 63) return 0;
  unsigned v = (immN << 6) | (~imms & 0x3F);          /* immN : NOT(imms) */
  int len = -1;
  for (int i = 6; i >= 0; i--) if ((v >> i) & 1) { len = i; break; }   /* HighestSetBit */
  if (len < 1) return 0;
  unsigned esize = 1u << len;
  if (esize > M) return 0;                             /* N==1 is reserved for the 32-bit variant */
  unsigned levels = esize - 1;                         /* ZeroExtend(Ones(len), 6) */
  if ((imms & levels) == levels) return 0;             /* all-ones element is reserved */
  unsigned S = imms & levels, R = immr & levels;
  uint64_t welem = spec_ones64(S + 1);
  uint64_t emask = spec_ones64(esize);
  uint64_t rot = R ? (((welem >> R) | (welem << (esize - R))) & emask) : welem;   /* ROR(welem, R) within esize bits */
  uint64_t w = 0;
  for (unsigned i = 0; i < M; i += esize) w |= rot << i;                          /* Replicate */
  *wmask = w & spec_ones64(M);
  return 1;
}
static inline unsigned spec_bitmask_esize(unsigned immN, unsigned imms) {
  unsigned v = (immN << 6) | (~imms & 0x3F);
  for (int i = 6; i >= 1; i--) if ((v >> i) & 1) return 1u << i;
  return 0;
}

/* ---- VFPExpandImm(imm8) for N in {16,32,64} ----------------------------------------------------------------- */
static inline uint64_t spec_vfp_expand_imm8(unsigned imm8, unsigned N) {
  unsigned E = N == 16 ? 5 : N == 32 ? 8 : 11;
  unsigned F = N - E - 1;
  uint64_t sign = (imm8 >> 7) & 1;
  uint64_t b6 = (imm8 >> 6) & 1;
  uint64_t exp = ((b6 ^ 1) << (E - 1)) | ((b6 ? spec_ones64(E - 3) : 0) << 2) | ((imm8 >> 4) & 3);
  uint64_t frac = (uint64_t)(imm8 & 0xF) << (F - 4);
  return (sign << (N - 1)) | (exp << F) | frac;
}
static inline _Bool spec_is_vfp_imm8(uint64_t val, unsigned N) {
  for (unsigned i = 0; i < 256; i++) if (spec_vfp_expand_imm8(i, N) == val) return 1;
  return 0;
}

/* ---- A32 modified immediate: imm12 = rot:imm8, value = ROR(imm8, 2*rot) ---------------------------------------- */
static inline uint32_t spec_a32_expand_imm(uint32_t imm12) { return spec_ror32(imm12 & 0xFF, 2 * ((imm12 >> 8) & 0xF)); }
static inline _Bool spec_a32_imm_encodable(uint64_t v) {
  if (v >> 32) return 0;
  for (unsigned rot = 0; rot < 16; rot++) if (spec_ror32((uint32_t)v, 32 - 2 * rot) <= 0xFF) return 1;   /* ROL(v, 2rot) */
  return 0;
}

/* ---- MOVZ / MOVN / MOVK interpreter ---------------------------------------------------------------------------- */
/* Executes `count` instruction words on register `rd`; returns 0 when a word is not a MOV-wide instruction writing rd
 * (or, for the W form, uses hw > 1). x = 1 when the destination is an X register; the result is the 64-bit register value. */
static inline _Bool spec_exec_mov_wide(const uint32_t* w, unsigned count, unsigned rd, unsigned x, uint64_t* result) {
  uint64_t reg = 0;
  if (count < 1) return 0;
  for (unsigned i = 0; i < count; i++) {
    uint32_t ins = w[i];
    unsigned sf = ins >> 31, opc = (ins >> 29) & 3, fixed = (ins >> 23) & 0x3F, hw = (ins >> 21) & 3;
    uint64_t imm16 = (ins >> 5) & 0xFFFF;
    if (fixed != 0x25) return 0;                      /* 100101 */
    if ((ins & 31) != rd) return 0;
    if (sf && !x) return 0;                          /* a W destination must not be written by an X-form instruction; W-form writes zero-extend into X */
    if (!sf && hw > 1) return 0;                      /* UNDEFINED for the 32-bit variant */
    if (opc == 1) return 0;                           /* unallocated */
    if (i == 0 && opc == 3) return 0;                 /* the first instruction must define the whole register */
    if (i > 0 && opc != 3) return 0;
    unsigned pos = hw * 16;
    if (opc == 2) reg = imm16 << pos;                 /* MOVZ */
    else if (opc == 0) reg = ~(imm16 << pos);         /* MOVN */
    else reg = (reg & ~((uint64_t)0xFFFF << pos)) | (imm16 << pos);   /* MOVK */
    if (!sf) reg &= 0xFFFFFFFFu;                      /* W writes zero-extend */
  }
  *result = reg;
  return 1;
}

/* ---- byte masks (MOVI 64-bit variant: each imm8 bit expands to one byte) --------------------------------------- */
static inline _Bool spec_is_byte_mask(uint64_t v) {
  for (unsigned i = 0; i < 8; i++) { unsigned b = (v >> (8 * i)) & 0xFF; if (b != 0 && b != 0xFF) return 0; }
  return 1;
}
static inline uint64_t spec_expand_byte_mask(unsigned imm8) {
  uint64_t v = 0;
  for (unsigned i = 0; i < 8; i++) if ((imm8 >> i) & 1) v |= (uint64_t)0xFF << (8 * i);
  return v;
}
#endif
