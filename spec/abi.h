/* Independent statement of argument passing rules (System V AMD64 psABI 3.2.3, Microsoft x64 calling convention,
 * AAPCS64 6.8.2 stages B/C, Apple arm64 deviations), as a left-to-right scan over the signature. Pure C.
 * Register numbers are the hardware encodings (x86: ax=0 cx=1 dx=2 bx=3 sp=4 bp=5 si=6 di=7, r8..r15; AArch64: x0..x30, v0..v31). */
#ifndef SPEC_ABI_H
#define SPEC_ABI_H
#include "spec/specdefs.h"

enum { SPEC_LOC_NONE = 0, SPEC_LOC_GP = 1, SPEC_LOC_VEC = 2, SPEC_LOC_STACK = 3, SPEC_LOC_GP_INDIRECT = 4, SPEC_LOC_STACK_INDIRECT = 5 };
struct spec_loc { int kind; unsigned reg; uint32_t offset; };
enum { SPEC_T_NONE = 0, SPEC_T_INT = 1, SPEC_T_F32 = 2, SPEC_T_F64 = 3, SPEC_T_VEC = 4 };
enum { SPEC_ABI_SYSV64 = 1, SPEC_ABI_WIN64 = 2, SPEC_ABI_AAPCS64 = 3, SPEC_ABI_APPLE64 = 4 };

/* asmjit TypeId numbering (type.h): ints 34..41 (8/8/16/16/32/32/64/64 bit), f32 42, f64 43, vec64 61..70, vec128 71..80, vec256 81..90, vec512 91..100 */
static inline int spec_type_class(unsigned t) {
  if (t >= 34 && t <= 41) return SPEC_T_INT;
  if (t == 42) return SPEC_T_F32;
  if (t == 43) return SPEC_T_F64;
  if (t >= 61 && t <= 100) return SPEC_T_VEC;
  return SPEC_T_NONE;
}
static inline unsigned spec_type_size(unsigned t) {
  if (t >= 34 && t <= 41) return 1u << ((t - 34) / 2);
  if (t == 42) return 4;
  if (t == 43) return 8;
  if (t >= 61 && t <= 70) return 8;
  if (t >= 71 && t <= 80) return 16;
  if (t >= 81 && t <= 90) return 32;
  if (t >= 91 && t <= 100) return 64;
  return 0;
}
static inline uint32_t spec_round_up(uint32_t v, uint32_t a) { return (v + a - 1) / a * a; }

struct spec_args_result { struct spec_loc loc; uint32_t stack_size; };

/* location of argument `g` (and the total size of the stack argument area) for a signature of n <= 32 arguments */
static inline struct spec_args_result spec_arg_location(int abi, const uint8_t* types, unsigned n, unsigned g) {
  static const uint8_t sysv_gp[6] = {7, 6, 2, 1, 8, 9};      /* rdi rsi rdx rcx r8 r9 */
  static const uint8_t win_gp[4] = {1, 2, 8, 9};             /* rcx rdx r8 r9 */
  struct spec_args_result r; r.loc.kind = SPEC_LOC_NONE; r.loc.reg = 0; r.loc.offset = 0; r.stack_size = 0;
  unsigned ngp = 0, nvec = 0; uint32_t nsaa = abi == SPEC_ABI_WIN64 ? 32 : 0;   /* next stacked argument address; Win64 home space = 4 slots */
  for (unsigned i = 0; i < 32; i++) {
    if (i >= n) break;
    unsigned t = types[i], sz = spec_type_size(t); int c = spec_type_class(t);
    struct spec_loc l; l.kind = SPEC_LOC_NONE; l.reg = 0; l.offset = 0;
    if (abi == SPEC_ABI_WIN64) {
      /* positional: argument i owns register slot i (i < 4) or the stack slot at 8*i; vectors go by reference */
      if (c == SPEC_T_INT) { if (i < 4) { l.kind = SPEC_LOC_GP; l.reg = win_gp[i]; } else { l.kind = SPEC_LOC_STACK; l.offset = 8 * i; } }
      else if (c == SPEC_T_F32 || c == SPEC_T_F64) { if (i < 4) { l.kind = SPEC_LOC_VEC; l.reg = i; } else { l.kind = SPEC_LOC_STACK; l.offset = 8 * i; } }
      else { if (i < 4) { l.kind = SPEC_LOC_GP_INDIRECT; l.reg = win_gp[i]; } else { l.kind = SPEC_LOC_STACK_INDIRECT; l.offset = 8 * i; } }
      if (i >= 4) nsaa = 8 * i + 8;
    } else {
      _Bool in_reg = 0;
      if (c == SPEC_T_INT) {
        unsigned lim = abi == SPEC_ABI_SYSV64 ? 6 : 8;
        if (ngp < lim) { l.kind = SPEC_LOC_GP; l.reg = abi == SPEC_ABI_SYSV64 ? sysv_gp[ngp] : ngp; ngp++; in_reg = 1; }
      } else {
        if (nvec < 8) { l.kind = SPEC_LOC_VEC; l.reg = nvec; nvec++; in_reg = 1; }
      }
      if (!in_reg) {
        uint32_t align, slot;
        if (abi == SPEC_ABI_APPLE64) { align = sz; slot = sz; }                           /* natural size and alignment */
        else { align = sz > 8 ? sz : 8; slot = spec_round_up(sz, 8); }                    /* 8-byte slots, larger types naturally aligned */
        nsaa = spec_round_up(nsaa, align);
        l.kind = SPEC_LOC_STACK; l.offset = nsaa;
        nsaa += slot;
      }
    }
    if (i == g) r.loc = l;
  }
  r.stack_size = spec_round_up(nsaa, 8);
  return r;
}
#endif
