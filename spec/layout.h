/* Independent reference for section layout: sections in order, each non-empty one aligned up, running 64-bit sum. */
#ifndef SPEC_LAYOUT_H
#define SPEC_LAYOUT_H
#include "spec/specdefs.h"
#define SPEC_MAX_SECTIONS 8
struct spec_layout {
  _Bool overflow;                       /* the running sum (or an alignment step) left the 64-bit range */
  uint64_t off[SPEC_MAX_SECTIONS];      /* offset of every section */
  uint64_t end;                         /* end of the last non-empty section = flattened size */
};
static inline struct spec_layout spec_layout_compute(unsigned n, const uint64_t* real, const uint32_t* align) {
  struct spec_layout L;
  uint64_t cur = 0;
  L.overflow = 0;
  for (unsigned i = 0; i < SPEC_MAX_SECTIONS; i++) {
    L.off[i] = 0;
    if (i >= n) continue;
    if (real[i]) {
      uint64_t a = align[i];
      uint64_t rem = a ? (cur & (a - 1)) : 0;         /* align is a power of two (precondition): cur mod a, without a 64-bit divider in the solver */
      uint64_t pad = rem ? a - rem : 0;
      if (cur > UINT64_MAX - pad) L.overflow = 1;
      cur += pad;
      L.off[i] = cur;
      if (cur > UINT64_MAX - real[i]) L.overflow = 1;
      cur += real[i];
    } else {
      L.off[i] = cur;
    }
  }
  L.end = cur;
  return L;
}
static inline _Bool spec_is_pow2_u32(uint32_t a) { return a != 0 && (a & (a - 1)) == 0; }
#endif
