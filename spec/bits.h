/* Reference semantics of bit-vector primitives (64-bit words, bit i of the vector = bit (i % 64) of word i / 64). */
#ifndef SPEC_BITS_H
#define SPEC_BITS_H
#include "spec/specdefs.h"
static inline _Bool spec_bit(const uint64_t* v, size_t i) { return (v[i / 64] >> (i % 64)) & 1; }
/* bits of word w that lie in [index, index + count) */
static inline uint64_t spec_range_mask64_ref(size_t w, size_t index, size_t count) {
  uint64_t m = 0;
  for (unsigned b = 0; b < 64; b++) {
    size_t pos = w * 64 + b;
    if (pos >= index && pos - index < count) m |= (uint64_t)1 << b;
  }
  return m;
}
/* closed form of spec_range_mask64_ref (equality is proved by the lemma unit c09.bits.lemma_range_mask); cheaper for the solver */
static inline uint64_t spec_ones_upto(size_t k) { return k >= 64 ? ~(uint64_t)0 : (((uint64_t)1 << k) - 1); }
static inline uint64_t spec_range_mask64(size_t w, size_t index, size_t count) {
  size_t base = w * 64, end = index + count;            /* callers keep index + count within size_t */
  size_t lo = index <= base ? 0 : (index - base >= 64 ? 64 : index - base);
  size_t hi = end <= base ? 0 : (end - base >= 64 ? 64 : end - base);
  return hi <= lo ? 0 : (spec_ones_upto(hi) & ~spec_ones_upto(lo));
}
static inline uint32_t spec_popcount64_ref(uint64_t x) { uint32_t n = 0; for (unsigned b = 0; b < 64; b++) n += (x >> b) & 1; return n; }
static inline uint32_t spec_popcount64(uint64_t x) { return (uint32_t)__builtin_popcountll(x); }
/* all bits of [a, b) equal `val` in a vector of `words` words (a <= b <= words*64) */
static inline _Bool spec_all_bits(const uint64_t* v, size_t words, size_t a, size_t b, _Bool val) {
  for (size_t w = 0; w < words; w++) {
    uint64_t m = spec_range_mask64(w, a, b - a);
    if (((val ? ~v[w] : v[w]) & m) != 0) return 0;
  }
  return 1;
}
#endif
