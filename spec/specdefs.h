#ifndef SPEC_DEFS_H
#define SPEC_DEFS_H
#include <stdint.h>
#include <stddef.h>
#ifdef __cplusplus
typedef bool _Bool;
#endif
#endif
