from tools.drive import Unit

UNITS = [
    Unit(name="c19.add", props=["C19", "C15", "C14"], tu="asmjit/core/constpool.cpp", roots=["asmjit::ConstPool::add"],
         stops=["asmjit::ConstPool::Tree::get", "asmjit::ConstPool::Tree::insert", "asmjit::ConstPool::Tree::new_node_t", "asmjit::Arena::alloc_oneshot"],
         target="ConstPool_add", contracts="contracts/c19_constpool.h",
         replace=["ConstPool_Tree_get", "ConstPool_Tree_insert", "ConstPool_Tree_new_node_t", "Arena_alloc_oneshot_ConstPool_Gap_"], unwind=18, quick_unwind=8, quick_unwindset=["ConstPool_add_wrapped_for_contract_checking.2:2", "ConstPool_add_wrapped_for_contract_checking.1:3"], object_bits=8, quick_defines=["VERIF_MAXCONST=8"], thorough_defines=["VERIF_MAXCONST=64"], timeout=1700,
         kind="bounded", bound_note="at most one gap per size class and one spare gap record on entry; pool size <= 2^30; constant sizes <= 8 bytes (quick) / all sizes (thorough), contents symbolic",
         trusted=["ConstPool::Tree::get/insert/new_node_t and Arena::alloc_oneshot<Gap> replaced by ASSUMED contracts (abstract set view of the red-black tree, 'NULL or fresh' allocator): not proved in this unit"]),
]

UNITS += [
    Unit(name="c19.reset", props=["C16", "C19"], tu="asmjit/core/constpool.cpp", roots=["asmjit::ConstPool::reset"], target="ConstPool_reset",
         contracts="contracts/c19_constpool.h", unwind=9,
         note="arbitrary prior pool state (any pointers, sizes): the loop over the 7 size classes is a constant of the code and fully unwound => complete"),
]
