from tools.drive import Unit

CP = "asmjit/core/constpool.cpp"
STOPS = ["asmjit::ConstPool::Tree::get", "asmjit::ConstPool::Tree::insert", "asmjit::ConstPool::Tree::new_node_t", "asmjit::Arena::alloc_oneshot"]
REPL = ["ConstPool_Tree_get", "ConstPool_Tree_insert", "ConstPool_Tree_new_node_t", "Arena_alloc_oneshot_ConstPool_Gap_"]
TRUSTED = ["ConstPool::Tree::get/insert/new_node_t and Arena::alloc_oneshot<Gap> replaced by ASSUMED stubs (harness/c19_add.c) (abstract view of the red-black tree: "
           "get returns NULL or a node placed by an earlier add of this size; new_node_t/alloc return NULL or a fresh record): not proved in this unit"]


def add_unit(size, tiers, nper=2):
    return Unit(name="c19.add.%s" % ("size%d" % size if size else "invalid"), props=["C19", "C15", "C14"], tu=CP, roots=["asmjit::ConstPool::add"], stops=STOPS,
                target="ConstPool_add", contracts="contracts/c19_constpool.h", harness="harness/c19_add.c", replay="replay/c19_add.cpp", dfcc=False, unwind=34,
                unwindset=(["ConstPool_addGap.0:7"] if size else ["ConstPool_addGap.0:1", "ConstPool_add.0:1", "ConstPool_add.1:1", "ConstPool_add.2:1"]), object_bits=8, mem_gb=20, quick_defines=["NPER=1"],
                defines=(["VERIF_CONSTSIZE=%d" % size] if size else []), thorough_defines=["NPER=%d" % nper], tiers=tiers, timeout=1500, thorough_timeout=3000, kind="bounded",
                bound_note="pre-state: 0..%d registered gaps per size class in the thorough tier, 0..1 in the quick tier (offsets symbolic, disjoint), 0..1 spare gap record, pool size <= 2^30; " % nper
                           + ("constant size %d, contents symbolic" % size if size else "every size that is not a power of two <= 64 (the loops of add() are unreachable "
                                                                                         "for these: unwinding assertions at bound 1 prove it)"),
                trusted=TRUSTED)


ALL = ("quick", "thorough")
# size 1 (six iterations of the gap loop) does not finish within an hour even with one gap per class: kept as a dev unit, not claimed.
# sizes 2/4/8 take ~500 s with one gap per class and do not finish with two; 16/32/64 take 5-20 minutes with two.
UNITS = [add_unit(0, ALL), add_unit(1, ("dev",), 1), add_unit(2, ("thorough",), 1), add_unit(4, ("thorough",), 1),
         add_unit(8, ("thorough",), 1), add_unit(16, ALL), add_unit(32, ("thorough",)), add_unit(64, ALL)]

UNITS += [
    Unit(name="c19.reset", props=["C16", "C19"], tu="asmjit/core/constpool.cpp", roots=["asmjit::ConstPool::reset"], target="ConstPool_reset",
         contracts="contracts/c19_constpool.h", unwind=9,
         note="arbitrary prior pool state (any pointers, sizes): the loop over the 7 size classes is a constant of the code and fully unwound => complete"),
]
