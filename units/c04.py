from tools.drive import Unit

CH = "asmjit/core/codeholder.cpp"
UNITS = [
    Unit(name="c04.relocate_to_base", props=["C04", "C14"], tu=CH, roots=["asmjit::CodeHolder::relocate_to_base"],
         stops=["asmjit::CodeWriterUtils::write_offset", "asmjit::CodeHolder_evaluate_expression", "asmjit::CodeHolder::reserve_buffer", "asmjit::ArenaTree::get"],
         target="CodeHolder_relocate_to_base", contracts="contracts/c04_reloc.h",
         replace=["CodeWriterUtils_write_offset", "CodeHolder_reserve_buffer", "CodeHolder_evaluate_expression",
                  "ArenaTree_AddressTableEntry_get_u64_Support_Compare_Support_SortOrder_kAscending"], unwind=10, object_bits=10, mem_gb=24, replay="replay/c04_relocate.cpp",
         kind="bounded", bound_note="<= 1 relocation entry, 2 sections (buffers <= 24 bytes), no address-table section, no expression entries; base address, payload, offsets, format symbolic",
         note="modular: write_offset replaced by its contract (unit c17.write_offset); reserve_buffer / evaluate_expression are unreachable in the covered configurations (requires(false) contracts are asserted at call sites)",
         trusted=["ArenaTree<AddressTableEntry>::get replaced by an assumed contract (empty table)"]),
]
