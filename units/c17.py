from tools.drive import Unit

CW = "asmjit/core/codewriter.cpp"

UNITS = [
    Unit(name="c17.encode_offset32", props=["C17", "C03", "C04", "C02"], tu=CW,
         roots=["asmjit::CodeWriterUtils::encode_offset32"], target="CodeWriterUtils_encode_offset32",
         contracts="contracts/c17_offset.h", harness="harness/c17_encode_offset32.c",
         replay="replay/c17_encode_offset32.cpp",
         note="all 2^64 displacements x every well-formed Signed/Unsigned/A64 ADR/ADRP format; loop-free => complete",
         mutants=[("bitcount_minus1", r"OffsetFormat_imm_bit_count\(format\);", "OffsetFormat_imm_bit_count(format) - 1;")]),
]

A64 = "asmjit/arm/a64assembler.cpp"
ARM = "contracts/c17_arm.h"


def arm_unit(name, root, target, **kw):
    return Unit(name="c17." + name, props=["C17", "C02"], tu=A64, roots=[root], target=target, contracts=ARM, **kw)


UNITS += [
    arm_unit("encode_logical_imm", "asmjit::arm::Utils::encode_logical_imm", "arm_Utils_encode_logical_imm", unwind=34,
             note="soundness and completeness against DecodeBitMasks for all 2^64 immediates x {32,64}; element-width loop <= 6 iterations fully unwound"),
    arm_unit("is_logical_imm", "asmjit::arm::Utils::is_logical_imm", "arm_Utils_is_logical_imm", unwind=34, defines=["VERIF_UNIT_IS_LOGICAL_IMM=1"],
             stops=["asmjit::arm::Utils::encode_logical_imm"], replace=["arm_Utils_encode_logical_imm"],
             note="modular: encode_logical_imm replaced by its contract (unit c17.encode_logical_imm) plus a ghost record of the call"),
    arm_unit("is_add_sub_imm", "asmjit::arm::Utils::is_add_sub_imm", "arm_Utils_is_add_sub_imm"),
    arm_unit("is_fp16_imm8", "asmjit::arm::Utils::is_fp16_imm8", "arm_Utils_is_fp16_imm8", unwind=257),
    arm_unit("is_fp32_imm8", "asmjit::arm::Utils::is_fp32_imm8#(u32", "arm_Utils_is_fp32_imm8__u32", unwind=257),
    arm_unit("is_fp64_imm8", "asmjit::arm::Utils::is_fp64_imm8#(u64", "arm_Utils_is_fp64_imm8__u64", unwind=257),
    arm_unit("encode_fp64_to_imm8", "asmjit::arm::Utils::encode_fp64_to_imm8#(u64", "arm_Utils_encode_fp64_to_imm8__u64", unwind=257),
    arm_unit("is_byte_mask_imm", "asmjit::arm::Utils::is_byte_mask_imm", "arm_Utils_is_byte_mask_imm_u64", unwind=9),
    arm_unit("encode_imm64_byte_mask_to_imm8", "asmjit::arm::Utils::encode_imm64_byte_mask_to_imm8", "arm_Utils_encode_imm64_byte_mask_to_imm8", unwind=9),
    arm_unit("encode_mov_sequence_32", "asmjit::a64::encode_mov_sequence_32", "a64_encode_mov_sequence_32", unwind=5, replay="replay/c17_mov_sequence_32.cpp"),
    arm_unit("encode_mov_sequence_64", "asmjit::a64::encode_mov_sequence_64", "a64_encode_mov_sequence_64", unwind=5, replay="replay/c17_mov_sequence.cpp",
             note="MOVZ/MOVN/MOVK interpreter reproduces imm for all 2^64 immediates; hw loop of 4 fully unwound"),
    arm_unit("encode_lmh", "asmjit::a64::encode_lmh", "a64_encode_lmh"),
    Unit(name="c17.encode_aarch32_imm", props=["C17"], tu=CW, roots=["asmjit::arm::Utils::encode_aarch32_imm"],
         target="arm_Utils_encode_aarch32_imm", contracts=ARM, unwind=17, replay="replay/c17_encode_aarch32_imm.cpp"),
]

OFF = "contracts/c17_offset.h"
UNITS += [
    Unit(name="c17.encode_offset64", props=["C17", "C03", "C04"], tu=CW, roots=["asmjit::CodeWriterUtils::encode_offset64"],
         target="CodeWriterUtils_encode_offset64", contracts=OFF),
    Unit(name="c17.write_offset", props=["C17", "C03", "C04"], tu=CW, roots=["asmjit::CodeWriterUtils::write_offset"],
         target="CodeWriterUtils_write_offset", contracts=OFF, unwind=9,
         replace=["CodeWriterUtils_encode_offset32", "CodeWriterUtils_encode_offset64"],
         note="modular: encode_offset32/64 replaced by their contracts; proves frame, failure-atomicity, field-exact patching"),
    Unit(name="c17.is_encodable_offset_32", props=["C17"], tu=CW, roots=["asmjit::EmitterUtils::is_encodable_offset_32"],
         target="EmitterUtils_is_encodable_offset_32", contracts=OFF),
    Unit(name="c17.is_encodable_offset_64", props=["C17"], tu=CW, roots=["asmjit::EmitterUtils::is_encodable_offset_64"],
         target="EmitterUtils_is_encodable_offset_64", contracts=OFF),
    Unit(name="c17.is_int_n_32", props=["C17"], tu=CW, roots=["asmjit::Support::is_int_n#_32_i64"],
         target="Support_is_int_n_32_i64", contracts=OFF),
]
