from tools.drive import Unit

CW = "asmjit/core/codewriter.cpp"

UNITS = [
    Unit(name="c17.encode_offset32", props=["C17", "C03", "C04", "C02"], tu=CW,
         roots=["asmjit::CodeWriterUtils::encode_offset32"], target="CodeWriterUtils_encode_offset32",
         contracts="contracts/c17_offset.h", harness="harness/c17_encode_offset32.c",
         replay="replay/c17_encode_offset32.cpp",
         note="all 2^64 displacements x every well-formed Signed/Unsigned/A64 ADR/ADRP format; loop-free => complete",
         mutants=[("bitcount_minus1", r"OffsetFormat_imm_bit_count\(format\);", "OffsetFormat_imm_bit_count(format) - 1;")]),
]
