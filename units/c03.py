from tools.drive import Unit

CH = "asmjit/core/codeholder.cpp"
UNITS = [
    Unit(name="c03.bind_label", props=["C03", "C14"], tu=CH, roots=["asmjit::CodeHolder::bind_label"], stops=["asmjit::CodeWriterUtils::write_offset"],
         target="CodeHolder_bind_label", contracts="contracts/c03_bind.h", replace=["CodeWriterUtils_write_offset"], unwind=16, object_bits=9, mem_gb=24, quick_defines=["VERIF_NFIX=1"], thorough_defines=["VERIF_NFIX=2"], timeout=3000,
         kind="bounded", bound_note="1 label entry, 2 sections (buffers <= 24 bytes), 1 relocation entry, <= 1 (quick) / 2 (thorough) pending fixups on the label; offsets, rel, formats, ids symbolic",
         note="modular: CodeWriterUtils::write_offset replaced by its contract (unit c17.write_offset)"),
    Unit(name="c03.resolve_cross_section_fixups", props=["C03"], replay="replay/c03_resolve.cpp", tu=CH, roots=["asmjit::CodeHolder::resolve_cross_section_fixups"], stops=["asmjit::CodeWriterUtils::write_offset"],
         target="CodeHolder_resolve_cross_section_fixups", contracts="contracts/c03_resolve.h", replace=["CodeWriterUtils_write_offset"], unwind=16, object_bits=10, mem_gb=28,
         quick_defines=["VERIF_NFIX=1"], thorough_defines=["VERIF_NFIX=2"], timeout=3000, kind="bounded",
         bound_note="1 bound label, 2 sections (buffers <= 24 bytes), <= 1 (quick) / 2 (thorough) cross-section references; section offsets, label offset, rel, formats symbolic (full 64-bit range)",
         note="modular: CodeWriterUtils::write_offset replaced by its contract (unit c17.write_offset)"),
]

UNITS += [
    Unit(name="c03.new_fixup", props=["C03", "C15"], tu=CH, roots=["asmjit::CodeHolder::new_fixup"], stops=["asmjit::Arena::_alloc_oneshot"],
         target="CodeHolder_new_fixup", contracts="contracts/c03_newfixup.h", replace=["Arena__alloc_oneshot"], unwind=12,
         note="loop-free code; complete for the stated shapes of the pool/arena (pool empty or one record at its head; <= 64 bytes left in the current arena block)",
         trusted=["Arena::_alloc_oneshot replaced by an ASSUMED contract (NULL or a fresh record); its own contract is unit c18.arena.alloc_oneshot"]),
]

UNITS += [
    Unit(name="c03.iter.resolve_and_next", props=["C03"], tu=CH, roots=["asmjit::ResolveFixupIterator::resolve_and_next"], target="ResolveFixupIterator_resolve_and_next",
         contracts="contracts/c03_iter.h", unwind=4, note="loop-free: complete"),
    Unit(name="c03.iter.next", props=["C03"], tu=CH, roots=["asmjit::ResolveFixupIterator::next"], target="ResolveFixupIterator_next",
         contracts="contracts/c03_iter.h", unwind=4, note="loop-free: complete"),
]
