from tools.drive import Unit

AR = "asmjit/support/arena.cpp"
UNITS = [
    Unit(name="c18.arena.alloc_oneshot", props=["C18", "C15", "C16"], tu=AR, roots=["asmjit::Arena::_alloc_oneshot"], target="Arena__alloc_oneshot",
         contracts="contracts/c18_arena.h", unwind=12, extra_cbmc=["--malloc-may-fail", "--malloc-fail-null"], object_bits=10,
         kind="bounded", bound_note="block chain: current block + <= 2 following blocks (the state after a soft reset), block payloads <= 4096 bytes; request size symbolic up to 2^20",
         trusted=["malloc/free: CBMC built-in model with --malloc-may-fail --malloc-fail-null"]),
]
