from tools.drive import Unit

AR = "asmjit/support/arena.cpp"
UNITS = [
    Unit(name="c18.arena.alloc_oneshot", props=["C18", "C15", "C16"], tu=AR, roots=["asmjit::Arena::_alloc_oneshot"], target="Arena__alloc_oneshot",
         contracts="contracts/c18_arena.h", unwind=12, mem_gb=28, replay="replay/c18_arena_alloc.cpp", extra_cbmc=["--malloc-may-fail", "--malloc-fail-null"], object_bits=9,
         kind="bounded", quick_defines=["VERIF_MAXSHIFT=12"], thorough_defines=["VERIF_MAXSHIFT=16"], timeout=1500,
         bound_note="block chain: current block + <= 2 following blocks (the state after a soft reset), block payloads <= 512 bytes; request size and block size shift symbolic up to 2^12 (quick) / 2^16 (thorough)",
         trusted=["malloc/free: CBMC built-in model with --malloc-may-fail --malloc-fail-null"]),
]

UNITS += [
    Unit(name="c18.string.prepare", props=["C18", "C15"], tu="asmjit/core/string.cpp", roots=["asmjit::String::prepare"], target="String_prepare",
         contracts="contracts/c18_string.h", unwind=44, replay="replay/c18_string_prepare.cpp", extra_cbmc=["--malloc-may-fail", "--malloc-fail-null"], object_bits=10,
         kind="bounded", bound_note="pre-state heap/external buffers <= 40 bytes (all embedded states are covered exactly); requested size symbolic up to 2^40",
         trusted=["malloc/free: CBMC built-in model with --malloc-may-fail --malloc-fail-null", "memcpy: byte loop stub"]),
]

UNITS += [
    Unit(name="c18.arena.reset", props=["C16", "C18"], tu=AR, roots=["asmjit::Arena::reset"], target="Arena_reset",
         contracts="contracts/c18_arena.h", unwind=10, unwindset=["verif_memset.0:66"], object_bits=9, mem_gb=28, quick_defines=["VERIF_MAXSHIFT=12"], thorough_defines=["VERIF_MAXSHIFT=16"],
         kind="bounded", bound_note="block chain <= 3 blocks, dynamic block list <= 1 block, no static first block",
         trusted=["free: CBMC built-in model", "memset: byte loop stub"]),
]
