from tools.drive import Unit

AR = "asmjit/support/arena.cpp"
UNITS = [
    Unit(name="c18.arena.alloc_oneshot", props=["C18", "C15", "C16"], tu=AR, roots=["asmjit::Arena::_alloc_oneshot"], target="Arena__alloc_oneshot",
         contracts="contracts/c18_arena.h", unwind=12, mem_gb=28, replay="replay/c18_arena_alloc.cpp", extra_cbmc=["--malloc-may-fail", "--malloc-fail-null"], object_bits=9,
         kind="bounded", quick_defines=["VERIF_MAXSHIFT=12"], thorough_defines=["VERIF_MAXSHIFT=16"], timeout=1500,
         bound_note="block chain: current block + <= 2 following blocks (the state after a soft reset), block payloads <= 512 bytes; request size and block size shift symbolic up to 2^12 (quick) / 2^16 (thorough)",
         trusted=["malloc/free: CBMC built-in model with --malloc-may-fail --malloc-fail-null"]),
]

UNITS += [
    Unit(name="c18.string.prepare", props=["C18", "C15"], tu="asmjit/core/string.cpp", roots=["asmjit::String::prepare"], target="String_prepare",
         contracts="contracts/c18_string.h", unwind=44, replay="replay/c18_string_prepare.cpp", extra_cbmc=["--malloc-may-fail", "--malloc-fail-null"], object_bits=10,
         kind="bounded", bound_note="pre-state heap/external buffers <= 40 bytes (all embedded states are covered exactly); requested size symbolic up to 2^40",
         trusted=["malloc/free: CBMC built-in model with --malloc-may-fail --malloc-fail-null", "memcpy: byte loop stub"]),
]

UNITS += [
    Unit(name="c18.arena.reset", props=["C16", "C18"], tu=AR, roots=["asmjit::Arena::reset"], target="Arena_reset",
         contracts="contracts/c18_arena.h", defines=["VERIF_UNIT_ARENA_RESET=1"], unwind=10, unwindset=["verif_memset.0:66"], object_bits=9, mem_gb=28, quick_defines=["VERIF_MAXSHIFT=12"], thorough_defines=["VERIF_MAXSHIFT=16"],
         kind="bounded", bound_note="block chain <= 3 blocks, dynamic block list <= 1 block, no static first block",
         trusted=["free: CBMC built-in model", "memset: byte loop stub"]),
]

UNITS += [
    Unit(name="c18.arena.alloc_reusable", props=["C18", "C15"], tu=AR, roots=["asmjit::Arena::_alloc_reusable"],
         target="Arena__alloc_reusable", contracts="contracts/c18_arena.h", unwind=12, object_bits=9, mem_gb=28,
         extra_cbmc=["--malloc-may-fail", "--malloc-fail-null"], quick_defines=["VERIF_MAXSHIFT=12"], thorough_defines=["VERIF_MAXSHIFT=16"], timeout=1500,
         mutants=[("bump_not_advanced", r"\(\(self->_ptr\) = \(p \+ size\)\);", "((self->_ptr) = (p));")],
         kind="bounded", bound_note="block chain as in c18.arena.alloc_oneshot (payloads <= 512 bytes); one list head per slot class; request size symbolic up to 2^12 (quick) / 2^16 (thorough)",
         note="Arena::_alloc_oneshot is inlined here (replacing it by its contract ran into dfcc's handling of was_freed for conditionally present blocks); this unit proves the allocator contract the ArenaVector units assume",
         trusted=["malloc: CBMC built-in model with --malloc-may-fail --malloc-fail-null"]),
]

UNITS += [
    Unit(name="c18.arena.free_reusable", props=["C18"], tu=AR, roots=["asmjit::Arena::free_reusable", "asmjit::Arena::ManagedBlock::end"], target="Arena_free_reusable",
         contracts="contracts/c18_arena.h", unwind=10, object_bits=8, kind="bounded",
         bound_note="dynamic block list: the released block plus at most one other, in either order; slot list heads arbitrary",
         mutants=[("next_prev_not_updated", r"\(\(next->prev\) = prev\);", "((next->prev) = next->prev);")],
         trusted=["free: CBMC built-in model"]),
]


STROP = {"_op_string": 1, "_op_chars": 2, "_op_char": 3, "truncate": 4, "assign_span": 5, "pad_end": 6, "assign": 7}


def str_unit(fn, cname, root=None, tiers=("dev",), unwind=34, note=""):
    return Unit(name="c18.string." + fn, props=["C18", "C15"], tiers=tiers, tu="asmjit/core/string.cpp", roots=[root or "asmjit::String::" + fn], target=cname,
                contracts="contracts/c18_string.h", unwind=unwind, extra_cbmc=["--malloc-may-fail", "--malloc-fail-null"], object_bits=9, mem_gb=24, kind="bounded",
                defines=["VERIF_SCAP=16", "VERIF_SRC=8", "VERIF_STROP=%d" % STROP[fn]], replay="replay/c18_string_ops.cpp", quick_defines=["VERIF_STR_EMBEDDED_ONLY=1"], timeout=1500,
                bound_note="pre-state: every embedded state (quick), plus heap/external buffers <= 16 bytes (thorough); sources <= 8 bytes, not aliasing the string",
                note=note or "String::prepare is inlined (its own contract is unit c18.string.prepare)",
                trusted=["malloc/free: CBMC built-in model with --malloc-may-fail --malloc-fail-null", "memcpy/memmove/memset/strlen: byte loop stubs / CBMC model"])


ALLT, THO = ("quick", "thorough"), ("thorough",)
UNITS += [str_unit("_op_string", "String__op_string", tiers=THO), str_unit("_op_chars", "String__op_chars", tiers=THO), str_unit("_op_char", "String__op_char", tiers=ALLT),
          str_unit("truncate", "String_truncate", tiers=ALLT), str_unit("assign", "String_assign__char_p_u64", root="asmjit::String::assign#char_p,u64"),   # assign: out of memory (memmove stub), dev only
          str_unit("assign_span", "String_assign__Span_char", root="asmjit::String::assign#Span_char", tiers=ALLT), str_unit("pad_end", "String_pad_end", tiers=THO)]
