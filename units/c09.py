from tools.drive import Unit

JA = "asmjit/core/jitallocator.cpp"
BITS = "contracts/c09_bits.h"
QW, TW = ["VERIF_W=1"], ["VERIF_W=2"]
BNB = "bit-vector length <= 1 word (quick) / 2 words (thorough); all indices/counts/contents symbolic"


def bits_unit(name, root, target, **kw):
    return Unit(name="c09.bits." + name, props=["C09", "C18"], tu=JA, roots=[root], target=target, contracts=BITS,
                quick_defines=QW, thorough_defines=TW, unwind=66, kind="bounded", bound_note=BNB, **kw)


UNITS = [
    bits_unit("fill", "asmjit::Support::bit_vector_fill", "Support_bit_vector_fill_u64"),
    bits_unit("clear", "asmjit::Support::bit_vector_clear", "Support_bit_vector_clear_u64"),
    bits_unit("set_bit", "asmjit::Support::bit_vector_set_bit", "Support_bit_vector_set_bit_u64"),
    bits_unit("get_bit", "asmjit::Support::bit_vector_get_bit", "Support_bit_vector_get_bit_u64"),
    Unit(name="c09.bits.lemma_range_mask", props=["C09", "C18"], tu=JA, roots=["asmjit::Support::bit_vector_get_bit"], target="lemma_range_mask",
         contracts=BITS, unwind=66, harness="harness/c09_lemma.c", spec_target=True, note="spec lemma: closed-form range mask / popcount == loop definitions (vectors up to 64 words)"),
    bits_unit("index_of", "asmjit::Support::bit_vector_index_of", "Support_bit_vector_index_of_u64"),
]

BLK = "contracts/c09_block.h"
BNK = "block bit vectors <= 1 word / 64 granules (quick), 2 words / 128 granules (thorough); every well-formed block state, flags and run"


def block_unit(name, unwind=7, **kw):
    # loops: bit_vector_op's word loop and the spec's word loops (<= VERIF_W iterations); clear_block's memset byte loop (<= 8*VERIF_W)
    return Unit(name="c09.block." + name, props=["C09"], tu=JA, roots=["asmjit::JitAllocatorBlock::" + name],
                target="JitAllocatorBlock_" + name, contracts=BLK, quick_defines=QW, thorough_defines=TW, unwind=unwind,
                kind="bounded", bound_note=BNK, **kw)


UNITS += [
    block_unit("mark_released_area", replay="replay/c09_block.cpp"),
    block_unit("mark_shrunk_area", replay="replay/c09_block_shrunk.cpp"),
    block_unit("mark_allocated_area"),
    block_unit("clear_block", unwind=36, replay="replay/c09_block_clear.cpp"),
]

UNITS += [
    Unit(name="c09.alloc.shrink", props=["C09", "C14"], tu=JA, roots=["asmjit::JitAllocatorImpl_shrink"],
         stops=["asmjit::JitAllocatorBlock::mark_shrunk_area", "asmjit::JitAllocator_fill_pattern", "asmjit::Lock::lock", "asmjit::Lock::unlock", "asmjit::VirtMem::protect_jit_memory"],
         target="JitAllocatorImpl_shrink", contracts="contracts/c09_shrink.h", replay="replay/c09_shrink.cpp",
         replace=["JitAllocatorBlock_mark_shrunk_area", "JitAllocator_fill_pattern", "Lock_lock", "Lock_unlock", "VirtMem_protect_jit_memory", "VirtMem_flush_instruction_cache"],
         quick_defines=QW, thorough_defines=TW, unwind=16, object_bits=9, kind="bounded", bound_note=BNK + "; granularity 64/128/256; new size any size_t",
         note="modular: JitAllocatorBlock::mark_shrunk_area replaced by its contract (unit c09.block.mark_shrunk_area)",
         trusted=["JitAllocator_fill_pattern, Lock::lock/unlock, VirtMem::protect_jit_memory/flush_instruction_cache replaced by assumed contracts (fill_pattern records its arguments)"]),
]

L3STOPS = ["asmjit::JitAllocator_fill_pattern", "asmjit::Lock::lock", "asmjit::Lock::unlock", "asmjit::VirtMem::protect_jit_memory", "asmjit::ArenaTree::get"]
L3REPL = ["JitAllocator_fill_pattern", "Lock_lock", "Lock_unlock", "VirtMem_protect_jit_memory", "VirtMem_flush_instruction_cache"]
L3TRUST = ["ArenaTree<JitAllocatorBlock>::get modelled by an ASSUMED stub (returns the block whose executable view contains the pointer, else NULL)",
           "JitAllocator_fill_pattern, Lock::lock/unlock, VirtMem::protect_jit_memory/flush_instruction_cache, JitAllocatorImpl_removeBlock/deleteBlock replaced by assumed contracts that record their arguments"]
UNITS += [
    Unit(name="c09.alloc.release", props=["C09", "C14"], tu=JA, roots=["asmjit::JitAllocator::release"],
         stops=L3STOPS + ["asmjit::JitAllocatorBlock::mark_released_area", "asmjit::JitAllocatorImpl_removeBlock", "asmjit::JitAllocatorImpl_deleteBlock"],
         target="JitAllocator_release", contracts="contracts/c09_release.h",
         replace=L3REPL + ["JitAllocatorBlock_mark_released_area", "JitAllocatorImpl_removeBlock", "JitAllocatorImpl_deleteBlock"],
         quick_defines=QW, thorough_defines=TW, unwind=24, object_bits=9, mem_gb=28, kind="bounded", bound_note=BNK + "; granularity 64/128/256; one block",
         note="modular: JitAllocatorBlock::mark_released_area replaced by its contract (unit c09.block.mark_released_area)", trusted=L3TRUST),
    Unit(name="c09.alloc.query", props=["C09", "C14"], tu=JA, roots=["asmjit::JitAllocator::query"], stops=L3STOPS,
         target="JitAllocator_query", contracts="contracts/c09_release.h", replace=[r for r in L3REPL if "fill" not in r and "VirtMem" not in r],
         quick_defines=QW, thorough_defines=TW, unwind=24, object_bits=9, mem_gb=28, kind="bounded", bound_note=BNK + "; granularity 64/128/256; one block", trusted=L3TRUST[:1]),
]

BLKS = "contracts/c09_blocks.h"
UNITS += [
    Unit(name="c09.pool.remove_block", props=["C09"], tu=JA, roots=["asmjit::JitAllocatorImpl_removeBlock"],
         stops=["asmjit::ArenaTree::remove", "asmjit::ArenaList::unlink"], target="JitAllocatorImpl_removeBlock", contracts=BLKS,
         replace=["ArenaList_JitAllocatorBlock_unlink", "ArenaTree_JitAllocatorBlock_remove_Support_Compare_Support_SortOrder_kAscending"],
         unwind=16, kind="bounded", bound_note="pools of 1..3 blocks, every position of the block and of the cursor; sizes and totals symbolic",
         note="modular: ArenaList::unlink replaced by its contract (unit c18.list.unlink)",
         trusted=["ArenaTree<JitAllocatorBlock>::remove replaced by an ASSUMED contract that records the call"]),
    Unit(name="c09.pool.insert_block", props=["C09"], tu=JA, roots=["asmjit::JitAllocatorImpl_insertBlock"],
         stops=["asmjit::ArenaTree::insert", "asmjit::ArenaList::_add_node"], target="JitAllocatorImpl_insertBlock", contracts=BLKS,
         replace=["ArenaList_JitAllocatorBlock__add_node", "ArenaTree_JitAllocatorBlock_insert_Support_Compare_Support_SortOrder_kAscending"],
         unwind=16, kind="bounded", bound_note="pools of 0..3 blocks; sizes and totals symbolic",
         note="modular: ArenaList::_add_node replaced by its contract (unit c18.list.add_node)",
         trusted=["ArenaTree<JitAllocatorBlock>::insert replaced by an ASSUMED contract that records the call"]),
]

ITER = "contracts/c09_iter.h"
UNITS += [
    Unit(name="c09.range_iterator.next_range", props=["C09"], tu=JA, roots=["asmjit::BitVectorRangeIterator<unsigned long, 0>::next_range"],
         target="BitVectorRangeIterator_u64_0_next_range", contracts=ITER, quick_defines=QW, thorough_defines=TW, unwind=6, kind="bounded",
         bound_note="bit vectors of 1 word (quick) / 2 words (thorough); every iterator state satisfying the invariant, every window end and hint",
         note="inductive step over the calls of an iteration: invariant in, invariant out, returned range free"),
    Unit(name="c09.range_iterator.init", props=["C09"], tu=JA, roots=["asmjit::BitVectorRangeIterator<unsigned long, 0>::init#u64_p,u64,u64,u64"],
         target="BitVectorRangeIterator_u64_0_init__u64_p_u64_u64_u64", contracts=ITER, quick_defines=QW, thorough_defines=TW, unwind=6, kind="bounded",
         bound_note="bit vectors of 1 word (quick) / 2 words (thorough)", note="establishes the iterator invariant"),
]

UNITS += [
    Unit(name="c09.alloc.alloc", props=["C09", "C14"], tiers=("dev",), tu=JA, roots=["asmjit::JitAllocator::alloc"],
         stops=["asmjit::JitAllocator_new_block", "asmjit::JitAllocator_calculate_ideal_block_size",
                "asmjit::JitAllocatorImpl_insertBlock", "asmjit::Lock::lock", "asmjit::Lock::unlock"],
         target="JitAllocator_alloc", contracts="contracts/c09_alloc.h", replace=["Lock_lock", "Lock_unlock"],
         quick_defines=QW, thorough_defines=TW, unwind=10, object_bits=9, mem_gb=28, timeout=1500,
         unwindset=["JitAllocator_alloc_wrapped_for_contract_checking.0:3", "JitAllocator_alloc_wrapped_for_contract_checking.1:4", "BitVectorRangeIterator_u64_0_next_range.0:4", "BitVectorRangeIterator_u64_0_next_range.1:4", "JitAllocator_size_to_pool_id.0:2"], kind="bounded",
         bound_note=BNK + "; granularity 64/128/256; one pool holding zero or one block; block creation fails (stub); request size any size_t",
         note="modular: JitAllocatorBlock::mark_allocated_area replaced by its contract (unit c09.block.mark_allocated_area); BitVectorRangeIterator inlined",
         trusted=["JitAllocator_new_block (fails), JitAllocator_calculate_ideal_block_size, Lock::lock/unlock: ASSUMED stubs/contracts"]),
]
