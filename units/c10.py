from tools.drive import Unit

CH = "asmjit/core/codeholder.cpp"
LAY = "contracts/c10_layout.h"
Q = ["VERIF_NSEC=3"]
T = ["VERIF_NSEC=6"]
BN = "sections <= 3 (quick) / 6 (thorough); all sizes, alignments, offsets symbolic 64-bit"

UNITS = [
    Unit(name="c10.flatten", props=["C10"], tu=CH, roots=["asmjit::CodeHolder::flatten"], target="CodeHolder_flatten",
         contracts=LAY, quick_defines=Q, thorough_defines=T, unwind=10, kind="bounded", bound_note=BN, replay="replay/c10_flatten.cpp"),
    Unit(name="c10.code_size", props=["C10"], tu=CH, roots=["asmjit::CodeHolder::code_size"], target="CodeHolder_code_size",
         contracts=LAY, quick_defines=Q, thorough_defines=T, unwind=10, kind="bounded", bound_note=BN, replay="replay/c10_layout.cpp"),
]

CPY = "contracts/c10_copy.h"
BC = "sections <= 2 (quick) / 3 (thorough); buffer and destination sizes symbolic up to 2^24 bytes (model object-size cap)"
UNITS += [
    Unit(name="c10.copy_flattened_data", props=["C10", "C14"], tu=CH, roots=["asmjit::CodeHolder::copy_flattened_data"], target="CodeHolder_copy_flattened_data",
         contracts=CPY, defines=["VERIF_KEEP_LIBC_MEM"], quick_defines=["VERIF_NSEC=2"], thorough_defines=["VERIF_NSEC=3"], unwind=5,
         replace=["memcpy", "memset"], object_bits=12, kind="bounded", bound_note=BC, trusted=["memcpy/memset replaced by assumed contracts (w_ok/r_ok preconditions asserted at every call site)"]),
    Unit(name="c10.copy_section_data", props=["C10", "C14"], tu=CH, roots=["asmjit::CodeHolder::copy_section_data"], target="CodeHolder_copy_section_data",
         contracts=CPY, defines=["VERIF_KEEP_LIBC_MEM"], quick_defines=["VERIF_NSEC=2"], thorough_defines=["VERIF_NSEC=3"], unwind=5,
         replace=["memcpy", "memset"], object_bits=12, kind="bounded", bound_note=BC, trusted=["memcpy/memset replaced by assumed contracts (w_ok/r_ok preconditions asserted at every call site)"]),
]
