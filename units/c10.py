from tools.drive import Unit

CH = "asmjit/core/codeholder.cpp"
LAY = "contracts/c10_layout.h"
Q = ["VERIF_NSEC=3"]
T = ["VERIF_NSEC=6"]
BN = "sections <= 3 (quick) / 6 (thorough); all sizes, alignments, offsets symbolic 64-bit"

UNITS = [
    Unit(name="c10.flatten", props=["C10"], tu=CH, roots=["asmjit::CodeHolder::flatten"], target="CodeHolder_flatten",
         contracts=LAY, quick_defines=Q, thorough_defines=T, unwind=10, kind="bounded", bound_note=BN, replay="replay/c10_flatten.cpp"),
    Unit(name="c10.code_size", props=["C10"], tu=CH, roots=["asmjit::CodeHolder::code_size"], target="CodeHolder_code_size",
         contracts=LAY, quick_defines=Q, thorough_defines=T, unwind=10, kind="bounded", bound_note=BN, replay="replay/c10_layout.cpp"),
]
