from tools.drive import Unit

AV = "asmjit/support/arenavector.cpp"
STOPS = ["asmjit::Arena::alloc_reusable", "asmjit::Arena::free_reusable"]
REPL = ["Arena_alloc_reusable_void__u64_Out_u64", "Arena_free_reusable"]
TRUSTED = ["Arena::alloc_reusable / free_reusable replaced by contracts that are assumed HERE and proved for Arena::_alloc_reusable / free_reusable by the units "
           "c18.arena.alloc_reusable / c18.arena.free_reusable (granted size, addressable block disjoint from live memory); the link between the two "
           "formulations ('disjoint from every live block' vs. 'fresh object') is by inspection, not machine-checked",
           "memcpy/memset: byte loop stubs"]


def vec_unit(fn, pow2, resize=False):
    tag = "true" if pow2 else "false"
    defs = (["VERIF_ITEM_POW2=1"] + (["VERIF_MAXLOG2=4"] if resize else [])) if pow2 else ["VERIF_ITEMSZ=12"]
    defs = defs + ["VERIF_VECOP=%d" % {"_reserve_fit": 1, "_reserve_grow": 2, "_reserve_additional": 3, "_resize_fit": 4, "_resize_grow": 5}[fn]]
    return Unit(name="c18.vector.%s.%s" % (fn.lstrip("_"), "pow2" if pow2 else "sz12"), props=["C18", "C15"], tu=AV,
                roots=["asmjit::ArenaVectorBase::%s#ItemSize_%s" % (fn, tag)], stops=STOPS, replace=REPL,
                target="ArenaVectorBase_%s__Arena_r_u64_ArenaVectorBase_ItemSize_%s" % (fn, tag), contracts="contracts/c18_vector.h", replay="replay/c18_vector.cpp",
                defines=defs, unwind=130 if resize else 50, kind="bounded",
                bound_note="pre-state buffer <= 48 bytes (contents symbolic); requested count any size_t"
                           + ("; resize target <= 8 items or >= 2^32-1 (the zero-filled tail is materialised)" if resize else "")
                           + ("; item size 2^k, k <= %d" % (4 if resize else 6) if pow2 else "; item size 12 bytes"),
                trusted=TRUSTED)


UNITS = [vec_unit("_reserve_fit", True), vec_unit("_reserve_grow", True), vec_unit("_reserve_additional", True),
         vec_unit("_resize_fit", True, True), vec_unit("_resize_grow", True, True),
         vec_unit("_reserve_grow", False), vec_unit("_reserve_additional", False), vec_unit("_resize_grow", False, True)]
