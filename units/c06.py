from tools.drive import Unit

UNITS = [
    Unit(name="c06.func_detail_init", props=["C06"], tu="inst/func_detail.cpp", roots=["asmjit::FuncDetail::init"], target="FuncDetail_init",
         contracts="contracts/c06_abi.h", unwind=34, quick_defines=["VERIF_MAXARGS=10"], thorough_defines=["VERIF_MAXARGS=32"], timeout=1700,
         note="x86-64 SysV / Win64 and AArch64 AAPCS64 / Apple, every signature of integer, float and vector arguments; loops bounded by the code's own kMaxFuncArgs = 32 (thorough) - quick checks signatures of <= 10 arguments"),
]
