from tools.drive import Unit

INST = "inst/func_detail.cpp"
ABI = "contracts/c06_abi.h"
NAMES = {1: "sysv64", 2: "win64", 3: "aapcs64", 4: "apple64"}


def cc_unit(abi):
    ns = "x86" if abi <= 2 else "a64"
    return Unit(name="c06.init_call_conv." + NAMES[abi], props=["C06"], tu=INST, roots=["asmjit::%s::FuncInternal::init_call_conv" % ns],
                target="%s_FuncInternal_init_call_conv" % ns, contracts=ABI, defines=["VERIF_ABI=%d" % abi], unwind=130,
                note="the CallConv record equals the ABI's table (argument register order, callee-saved sets, red/home zone, alignment); loop-free code")


def fd_unit(abi):
    ns = "x86" if abi <= 2 else "a64"
    return Unit(name="c06.init_func_detail." + NAMES[abi], props=["C06"], tu=INST, roots=["asmjit::%s::FuncInternal::init_func_detail" % ns],
                target="%s_FuncInternal_init_func_detail" % ns, contracts=ABI, defines=["VERIF_ABI=%d" % abi], unwind=34, quick_unwind=12, unwindset=["c_order_is.0:17"],
                quick_defines=["VERIF_MAXARGS=10"], thorough_defines=["VERIF_MAXARGS=32"], object_bits=9, thorough_object_bits=(11 if abi <= 2 else None), mem_gb=36, timeout=1700, thorough_timeout=7200, replay="replay/c06_func_detail.cpp",
                quick_kind="bounded", quick_bound_note="signatures of <= 10 arguments (the thorough tier unwinds the argument loops to the code's own limit of 32 arguments and is complete)",
                note="given the ABI's CallConv record (what init_call_conv is proved to produce), every signature of integer/float/vector arguments; "
                     "argument loops bounded by the code's own kMaxFuncArgs = 32 (thorough: complete); quick checks signatures of <= 10 arguments")


UNITS = [cc_unit(a) for a in (1, 2, 3, 4)] + [fd_unit(a) for a in (1, 2, 3, 4)]
