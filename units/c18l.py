from tools.drive import Unit

JA = "asmjit/core/jitallocator.cpp"


def list_unit(fn):
    return Unit(name="c18.list." + fn.lstrip("_"), props=["C18", "C09"], tu=JA, roots=["asmjit::ArenaList<asmjit::JitAllocatorBlock>::" + fn],
                target="ArenaList_JitAllocatorBlock_" + fn, contracts="contracts/c18_list.h", unwind=6, kind="bounded",
                bound_note="lists of 0..3 nodes; every position; loop-free code",
                note="ArenaList<JitAllocatorBlock>: the node links live in the second base class of JitAllocatorBlock (lowered as the field __b1)")


UNITS = [list_unit("unlink"), list_unit("_add_node")]
