from tools.drive import Unit

UNITS = [
    Unit(name="c07.finalize", props=["C07"], tu="inst/core_func.cpp", roots=["asmjit::FuncFrame::finalize"], target="FuncFrame_finalize",
         contracts="contracts/c07_frame.h", unwind=140, replay="replay/c07_finalize.cpp",
         note="all register masks, sizes (<= 2^28), alignments, attributes and supported architectures; RegGroup loop = 4 iterations (complete)"),
]
