from tools.drive import Unit

XA = "asmjit/x86/x86assembler.cpp"
LV = "contracts/c01_leaves.h"


def leaf(name, **kw):
    return Unit(name="c01." + name, props=["C01"], tu=XA, roots=["asmjit::x86::X86BufferWriter::" + name], target="x86_X86BufferWriter_" + name,
                contracts=LV, unwind=18, **kw)


UNITS = [leaf("emit_immediate"), leaf("emit_imm_byte_or_dword"), leaf("emit_pp"), leaf("emit_segment_override")]
