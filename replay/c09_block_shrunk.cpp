#define REPLAY_FN 2
#include "replay/c09_block.cpp"
