// Native replay for CodeHolder::resolve_cross_section_fixups: rebuilds the counterexample (two sections with offsets and buffers,
// one bound label, the pending cross-section references) in a real asmjit::CodeHolder, calls the function and checks each
// reference: patched sites must decode (spec/offset.h) to (target section offset + label offset) - (source section offset + site)
// + rel; references that cannot be represented must stay in the list and stay counted.
#include "replay/common.h"
#include <asmjit/core/codeholder.h>
#include "spec/offset.h"
using namespace asmjit;
#ifndef VERIF_BUF
#define VERIF_BUF 24
#endif
static uint64_t le64(const uint8_t* p, unsigned n) { uint64_t v = 0; for (unsigned i = 0; i < n && i < 8; i++) v |= (uint64_t)p[i] << (8 * i); return v; }
int main(int argc, char** argv) {
  replay_load(argc, argv);
  CodeHolder code;
  if (code.init(Environment(Arch::kX64)) != Error::kOk) return 2;
  Section* s1 = nullptr;
  if (code.new_section(Out(s1), ".second", SIZE_MAX, SectionFlags::kNone, 1, 1) != Error::kOk) return 2;
  Section* sec[2] = { code.text_section(), s1 };
  uint64_t soff[2];
  for (unsigned i = 0; i < 2; i++) {
    uint8_t* buf = (uint8_t*)calloc(1, VERIF_BUF);
    sec[i]->_buffer._data = buf; sec[i]->_buffer._size = VERIF_BUF; sec[i]->_buffer._capacity = VERIF_BUF; sec[i]->_buffer._flags = CodeBufferFlags::kIsExternal;
    soff[i] = IN(0, "g_soff[%u]", i); sec[i]->_offset = soff[i];
  }
  uint32_t lsec = (uint32_t)IN(0, "g_lsec"); uint64_t loff = IN(0, "g_loff");
  if (lsec >= 2) return 2;
  uint32_t label_id;
  if (code.new_label_id(Out(label_id)) != Error::kOk) return 2;
  Label label(label_id);
  if (code.bind_label(label, lsec, loff) != Error::kOk) return 2;
  unsigned nfix = (unsigned)IN(1, "g_nfix"); if (nfix < 1 || nfix > 2) return 2;
  struct Snap { uint32_t sec; uint64_t off; int64_t rel; OffsetFormat f; uint64_t word0; Fixup* rec; } sn[2];
  Fixup* prev = nullptr;
  for (unsigned k = 0; k < nfix; k++) {
    const char* G = k == 0 ? "g_f0" : "g_f1";
    Fixup* fx = code._fixup_data_pool.alloc(code._arena); if (!fx) return 2;
    fx->next = nullptr; fx->section_id = (uint32_t)IN(0, "%s.section_id", G); fx->label_or_reloc_id = label_id;
    fx->offset = (size_t)IN(0, "%s.offset", G); fx->rel = (intptr_t)IN(0, "%s.rel", G);
    fx->format._type = OffsetType(IN(0, "%s.format._type", G)); fx->format._flags = uint8_t(IN(0, "%s.format._flags", G));
    fx->format._region_size = uint8_t(IN(4, "%s.format._region_size", G)); fx->format._value_size = uint8_t(IN(4, "%s.format._value_size", G));
    fx->format._value_offset = uint8_t(IN(0, "%s.format._value_offset", G)); fx->format._imm_bit_count = uint8_t(IN(32, "%s.format._imm_bit_count", G));
    fx->format._imm_bit_shift = uint8_t(IN(0, "%s.format._imm_bit_shift", G)); fx->format._imm_discard_lsb = uint8_t(IN(0, "%s.format._imm_discard_lsb", G));
    if (fx->section_id >= 2 || fx->offset >= VERIF_BUF || VERIF_BUF - fx->offset < fx->format._region_size || fx->format._value_offset + fx->format._value_size > fx->format._region_size) return 2;
    if (!spec_format_wf((unsigned)fx->format._type, fx->format._value_size, fx->format._imm_bit_count, fx->format._imm_bit_shift, fx->format._imm_discard_lsb, fx->format._value_size == 8 ? 64 : 32)) return 2;
    uint64_t w0 = IN(0, "g_word0[%u]", k);
    uint8_t* site = sec[fx->section_id]->_buffer._data + fx->offset + fx->format._value_offset;
    for (unsigned b = 0; b < fx->format._value_size; b++) site[b] = (uint8_t)(w0 >> (8 * b));
    sn[k] = { fx->section_id, fx->offset, (int64_t)fx->rel, fx->format, le64(site, fx->format._value_size), fx };
    if (prev) prev->next = fx; else code._fixups = fx;
    prev = fx;
  }
  code._unresolved_fixup_count = IN(nfix, "g_unresolved0");
  size_t count0 = code._unresolved_fixup_count;
  Error err = code.resolve_cross_section_fixups();
  int bad = 0; unsigned resolved = 0, overflowed = 0; Fixup* p = code._fixups;
  for (unsigned k = 0; k < nfix; k++) {
    const Snap& s = sn[k];
    uint64_t to = soff[lsec] + loff, from = soff[s.sec] + s.off;
    bool of = to < loff || from < s.off;
    int64_t disp = (int64_t)(to - from + (uint64_t)s.rel);
    bool fits = !of && spec_representable(disp, (unsigned)s.f._type, s.f._imm_bit_count, s.f._imm_discard_lsb);
    uint64_t w = le64(sec[s.sec]->_buffer._data + s.off + s.f._value_offset, s.f._value_size);
    if (fits) {
      uint64_t m = spec_field_mask((unsigned)s.f._type, s.f._imm_bit_count, s.f._imm_bit_shift);
      if ((w & ~m) != (s.word0 & ~m)) { printf("VIOLATED: reference %u: bytes outside the displacement field changed\n", k); bad = 1; }
      int64_t got = spec_offset_decode(w, (unsigned)s.f._type, s.f._imm_bit_count, s.f._imm_bit_shift, s.f._imm_discard_lsb);
      if ((s.word0 & m) == 0 && got != disp) { printf("VIOLATED: reference %u (section %u+%llu, rel %lld) to the label at section %u+%llu with section offsets {%llu, %llu}: field decodes to %lld, the displacement is %lld\n",
          k, s.sec, (unsigned long long)s.off, (long long)s.rel, lsec, (unsigned long long)loff, (unsigned long long)soff[0], (unsigned long long)soff[1], (long long)got, (long long)disp); bad = 1; }
      resolved++;
    } else {
      if (of) overflowed++;
      if (p != s.rec) { printf("VIOLATED: reference %u cannot be represented but is no longer in the pending list\n", k); bad = 1; }
      else p = p->next;
      if (w != s.word0) { printf("VIOLATED: reference %u cannot be represented but its site was written\n", k); bad = 1; }
    }
  }
  if (!bad && p != nullptr) { printf("VIOLATED: the pending list holds more than the unresolved references\n"); bad = 1; }
  if (code._unresolved_fixup_count != count0 - resolved) { printf("VIOLATED: unresolved count %zu, expected %zu\n", code._unresolved_fixup_count, count0 - resolved); bad = 1; }
  if ((overflowed != 0) != (err == Error::kInvalidDisplacement) || (err != Error::kOk && err != Error::kInvalidDisplacement)) { printf("VIOLATED: returned %u with %u overflowing references\n", (unsigned)err, overflowed); bad = 1; }
  if (!bad) printf("resolve_cross_section_fixups: %u resolved, err=%u - as specified\n", resolved, (unsigned)err);
  code._fixups = nullptr;
  return bad;
}
