#define REPLAY_MOV32 1
#include "replay/c17_mov_sequence.cpp"
