// Native replay of a CBMC counterexample for CodeWriterUtils::encode_offset32 against the real C++ of the working tree.
#include "replay/common.h"
#include <asmjit/core/codewriter.cpp>
#include <cstdio>
#include "spec/offset.h"
#ifndef IN_offset64
#define IN_offset64 0
#endif
#ifndef IN_format__type
#define IN_format__type 0
#endif
#ifndef IN_format__value_size
#define IN_format__value_size 4
#endif
#ifndef IN_format__imm_bit_count
#define IN_format__imm_bit_count 32
#endif
#ifndef IN_format__imm_bit_shift
#define IN_format__imm_bit_shift 0
#endif
#ifndef IN_format__imm_discard_lsb
#define IN_format__imm_discard_lsb 0
#endif
#ifndef IN_format__value_offset
#define IN_format__value_offset 0
#endif
using namespace asmjit;
int main() {
  OffsetFormat f{};
  f._type = OffsetType(IN_format__type); f._value_size = IN_format__value_size; f._region_size = IN_format__value_size;
  f._value_offset = IN_format__value_offset;
  f._imm_bit_count = IN_format__imm_bit_count; f._imm_bit_shift = IN_format__imm_bit_shift; f._imm_discard_lsb = IN_format__imm_discard_lsb;
  int64_t off = IN_offset64;
  if (!spec_format_wf(IN_format__type, f._value_size, f._imm_bit_count, f._imm_bit_shift, f._imm_discard_lsb, 32)) { printf("precondition not met by inputs\n"); return 2; }
  uint32_t dst = 0xDEADBEEF;
  bool r = CodeWriterUtils::encode_offset32(&dst, off, f);
  bool rep = spec_representable(off, IN_format__type, f._imm_bit_count, f._imm_discard_lsb);
  printf("encode_offset32(off=%lld, type=%u size=%u bits=%u shift=%u discard=%u) -> %d dst=0x%08x; spec representable=%d\n",
         (long long)off, IN_format__type, f._value_size, f._imm_bit_count, f._imm_bit_shift, f._imm_discard_lsb, r, dst, rep);
  int bad = 0;
  if (r != rep) { printf("VIOLATED O3: accepted != representable\n"); bad = 1; }
  if (r) {
    int64_t back = spec_offset_decode(dst, IN_format__type, f._imm_bit_count, f._imm_bit_shift, f._imm_discard_lsb);
    if (back != off) { printf("VIOLATED O1: field decodes to %lld\n", (long long)back); bad = 1; }
    if (dst & ~(uint32_t)spec_field_mask(IN_format__type, f._imm_bit_count, f._imm_bit_shift)) { printf("VIOLATED O2: bits outside the field\n"); bad = 1; }
  }
  return bad;
}
