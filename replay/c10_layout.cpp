// Native replay for CodeHolder::flatten / code_size: rebuilds the section table of the counterexample in a real CodeHolder.
#include "replay/common.h"
#include "spec/layout.h"
#include <vector>
using namespace asmjit;
#define SECP "self@._sections_by_order.__b0._data@[%d]@"
int main(int argc, char** argv) {
  replay_load(argc, argv);
  unsigned n = (unsigned)IN(0, "self@._sections_by_order.__b0._size");
  if (n > SPEC_MAX_SECTIONS) { printf("too many sections\n"); return 2; }
  CodeHolder code;
  Environment env(Arch::kX64);
  if (code.init(env) != Error::kOk) return 2;
  std::vector<Section*> secs;
  secs.push_back(code.text_section());
  for (unsigned i = 1; i < n; i++) {
    Section* s = nullptr; char name[16]; snprintf(name, sizeof name, ".s%u", i);
    if (code.new_section(Out(s), name, SIZE_MAX, SectionFlags::kNone, 1, int(i)) != Error::kOk) return 2;
    secs.push_back(s);
  }
  uint64_t real[SPEC_MAX_SECTIONS] = {0}; uint32_t al[SPEC_MAX_SECTIONS] = {0};
  std::vector<size_t> saved;
  for (unsigned i = 0; i < n; i++) {
    Section* s = secs[i];
    // the contract's ghost snapshot (g_align/g_vs/g_off/g_buf) is the entry state of section i
    s->_alignment = (uint32_t)IN(1, "g_align[%d]", i);
    s->_virtual_size = IN(0, "g_vs[%d]", i);
    s->_offset = IN(0, "g_off[%d]", i);
    saved.push_back(s->_buffer._size);
    s->_buffer._size = (size_t)IN(0, "g_buf[%d]", i);
    real[i] = s->_virtual_size > s->_buffer._size ? s->_virtual_size : s->_buffer._size;
    al[i] = s->_alignment;
    printf("section %u: align=%u virtual=%llu buffer=%llu\n", i, al[i], (unsigned long long)s->_virtual_size, (unsigned long long)s->_buffer._size);
  }
  spec_layout L = spec_layout_compute(n, real, al);
  int bad = 0;
#ifdef REPLAY_FLATTEN
  Error e = code.flatten();
  printf("flatten() -> %u; spec overflow=%d\n", unsigned(e), L.overflow);
  if ((e != Error::kOk) != L.overflow) { printf("VIOLATED L6: error != overflow\n"); bad = 1; }
  if (e == Error::kOk) for (unsigned i = 0; i < n; i++) {
    if (secs[i]->_offset != L.off[i]) { printf("VIOLATED L6: section %u offset %llu, expected %llu\n", i, (unsigned long long)secs[i]->_offset, (unsigned long long)L.off[i]); bad = 1; }
    if (i + 1 < n && secs[i]->_virtual_size != L.off[i + 1] - L.off[i]) { printf("VIOLATED L3: section %u virtual size\n", i); bad = 1; }
  }
#else
  size_t cs = code.code_size();
  printf("code_size() -> %llu; spec overflow=%d end=%llu\n", (unsigned long long)cs, L.overflow, (unsigned long long)L.end);
  if (L.overflow ? cs != SIZE_MAX : cs != L.end) { printf("VIOLATED S1: wrong code size\n"); bad = 1; }
#endif
  for (unsigned i = 0; i < n; i++) secs[i]->_buffer._size = saved[i];
  return bad;
}
