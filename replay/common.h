// Shared by native replay programs. Exit status: 0 = property held on this input, 1 = violation reproduced, 2 = inputs unusable.
#ifndef REPLAY_COMMON_H
#define REPLAY_COMMON_H
#include <cstdio>
#include <cstdlib>
#include <asmjit/core.h>
// ghost objects of class types without default constructors (contract headers compiled as C++)
#define C_GHOST_OBJ(T, name) alignas(T) static unsigned char name##_storage[sizeof(T)]; static T& name = *reinterpret_cast<T*>(name##_storage)
#include <cstring>
#include <cstdarg>
#include <string>
#include <map>
// inputs extracted from the verifier's counterexample: "path=value" lines in the file named by argv[1]
static std::map<std::string, long long> g_replay_inputs;
static void replay_load(int argc, char** argv) {
  if (argc < 2) return;
  FILE* f = fopen(argv[1], "r"); if (!f) return;
  char line[4096];
  while (fgets(line, sizeof line, f)) {
    char* eq = strrchr(line, '='); if (!eq) continue;
    *eq = 0;
    g_replay_inputs[line] = (long long)strtoull(eq + 1, nullptr, 10);
    if (eq[1] == '-') g_replay_inputs[line] = strtoll(eq + 1, nullptr, 10);
  }
  fclose(f);
}
static bool IN_has(const char* fmt, ...) { char k[1024]; va_list ap; va_start(ap, fmt); vsnprintf(k, sizeof k, fmt, ap); va_end(ap); return g_replay_inputs.count(k) != 0; }
static unsigned long long IN(unsigned long long dflt, const char* fmt, ...) {
  char k[1024]; va_list ap; va_start(ap, fmt); vsnprintf(k, sizeof k, fmt, ap); va_end(ap);
  auto it = g_replay_inputs.find(k); return it == g_replay_inputs.end() ? dflt : (unsigned long long)it->second;
}
#ifndef REPLAY_NO_ASSERTION_FAILURE
// the real assertion_failure lives in globals.cpp (not linked here): an ASMJIT_ASSERT that fires on the replayed input is a reproduction
ASMJIT_BEGIN_SUB_NAMESPACE(DebugUtils)
void assertion_failure(const char* file, int line, const char* msg) noexcept {
  printf("VIOLATED ASMJIT_ASSERT %s:%d: %s\n", file, line, msg); fflush(stdout); exit(1);
}
ASMJIT_END_SUB_NAMESPACE
#endif
#endif
