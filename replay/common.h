// Shared by native replay programs. Exit status: 0 = property held on this input, 1 = violation reproduced, 2 = inputs unusable.
#ifndef REPLAY_COMMON_H
#define REPLAY_COMMON_H
#include <cstdio>
#include <cstdlib>
#include <asmjit/core.h>
#ifndef REPLAY_NO_ASSERTION_FAILURE
// the real assertion_failure lives in globals.cpp (not linked here): an ASMJIT_ASSERT that fires on the replayed input is a reproduction
ASMJIT_BEGIN_SUB_NAMESPACE(DebugUtils)
void assertion_failure(const char* file, int line, const char* msg) noexcept {
  printf("VIOLATED ASMJIT_ASSERT %s:%d: %s\n", file, line, msg); fflush(stdout); exit(1);
}
ASMJIT_END_SUB_NAMESPACE
#endif
#endif
