// Native replay for CodeHolder::relocate_to_base: rebuilds the counterexample (two sections with their offsets and buffer
// contents, one relocation entry) in a real asmjit::CodeHolder, calls relocate_to_base(base) and evaluates the contract's
// postcondition predicate (contracts/c04_reloc.h compiled as C++ over the real members).
#include "replay/common.h"
#include <asmjit/core/codeholder.h>
using namespace asmjit;
#define VERIF_NATIVE_REPLAY 1
#define HAVE_STRUCT_CodeHolder 1
#define __CPROVER_havoc_object(x) ((void)0)
static size_t nondet_size_t() { return 0; }
#include "contracts/c04_reloc.h"
int main(int argc, char** argv) {
  replay_load(argc, argv);
  unsigned arch = (unsigned)IN(2, "self@._environment._arch");
  Environment env(arch == 1 ? Arch::kX86 : Arch::kX64);
  CodeHolder code;
  if (code.init(env) != Error::kOk) return 2;
  Section* s1 = nullptr;
  if (code.new_section(Out(s1), ".second", SIZE_MAX, SectionFlags::kNone, 1, 1) != Error::kOk) return 2;
  Section* sec[2] = { code.text_section(), s1 };
  if (code._sections.size() != 2) return 2;
  for (unsigned i = 0; i < 2; i++) {
    uint64_t size = IN(0, "g_bsz[%u]", i);
    if (size > VERIF_BUF) return 2;
    uint8_t* buf = (uint8_t*)calloc(1, VERIF_BUF);
    sec[i]->_buffer._data = buf; sec[i]->_buffer._size = (size_t)size; sec[i]->_buffer._capacity = VERIF_BUF;
    sec[i]->_buffer._flags = CodeBufferFlags::kIsExternal;          // our buffer: the holder must not free it
    g_off[i] = IN(0, "g_off[%u]", i); sec[i]->_offset = g_off[i];
  }
  uint64_t base = IN(0, "base_address");
  g_base0 = IN(~0ull, "g_base0"); code._base_address = g_base0;
  for (unsigned i = 0; i < 2; i++) g_bsz[i] = sec[i]->_buffer._size;
  unsigned nrel = (unsigned)IN(1, "self@._relocations.__b0._size");
  if (nrel == 1) {
    RelocEntry* re = nullptr;
    if (code.new_reloc_entry(Out(re), RelocType(IN(3, "g_re0._reloc_type"))) != Error::kOk) return 2;
    re->_source_section_id = (uint32_t)IN(0, "g_re0._source_section_id"); re->_target_section_id = (uint32_t)IN(0, "g_re0._target_section_id");
    re->_source_offset = IN(0, "g_re0._source_offset"); re->_payload = IN(0, "g_re0._payload");
    const char* F = "g_re0._format.";
    re->_format._type = OffsetType(IN(0, "%s_type", F)); re->_format._flags = uint8_t(IN(0, "%s_flags", F)); re->_format._region_size = uint8_t(IN(4, "%s_region_size", F));
    re->_format._value_size = uint8_t(IN(4, "%s_value_size", F)); re->_format._value_offset = uint8_t(IN(0, "%s_value_offset", F));
    re->_format._imm_bit_count = uint8_t(IN(32, "%s_imm_bit_count", F)); re->_format._imm_bit_shift = uint8_t(IN(0, "%s_imm_bit_shift", F)); re->_format._imm_discard_lsb = uint8_t(IN(0, "%s_imm_discard_lsb", F));
    g_re0 = *re;
    g_word0 = IN(0, "g_word0");
    if (re->_source_section_id < 2 && c_in_bounds(re, sec[re->_source_section_id])) {   // the placeholder word at the patched site; other bytes are irrelevant
      uint8_t* site = sec[re->_source_section_id]->_buffer._data + re->_source_offset + re->_format._value_offset;
      for (unsigned b = 0; b < re->_format._value_size; b++) site[b] = (uint8_t)(g_word0 >> (8 * b));
    }
    if (0) g_word0 = c_le64(sec[re->_source_section_id]->_buffer._data + re->_source_offset + re->_format._value_offset, re->_format._value_size);
  }
  if (!c_reloc_state(&code)) { printf("inputs do not satisfy the precondition of the contract (replay outside its range)\n"); return 2; }
  Error err = code.relocate_to_base(base);
  int c = c_reloc_post(&code, base, (uint32_t)err);
  if (c) {
    printf("VIOLATED clause R%d: relocate_to_base(0x%llx) -> err=%u; entry type=%u src=%u+%llu target=%u payload=0x%llx section offsets {%llu, %llu}\n", c, (unsigned long long)base, (unsigned)err,
           RT(&g_re0), g_re0._source_section_id, (unsigned long long)g_re0._source_offset, g_re0._target_section_id, (unsigned long long)g_re0._payload, (unsigned long long)g_off[0], (unsigned long long)g_off[1]);
    return 1;
  }
  printf("relocate_to_base(0x%llx) -> err=%u: postcondition holds\n", (unsigned long long)base, (unsigned)err);
  return 0;
}
