// Native replay for String::prepare: rebuilds the pre-state (embedded / heap / external) of the counterexample in a real
// asmjit::String, calls prepare(), and evaluates the contract's postcondition predicate (compiled as C++ on the real members).
#include "replay/common.h"
#include <asmjit/core/string.h>
using namespace asmjit;
#define HAVE_STRUCT_String 1
#define __CPROVER_havoc_object(x) ((void)0)
static size_t nondet_size_t() { return 0; }
#include "contracts/c18_string.h"
int main(int argc, char** argv) {
  replay_load(argc, argv);
  String s;
  uint8_t type = (uint8_t)IN(0, "g_old_type"); uint64_t size = IN(0, "g_old_size"), cap = IN(30, "g_old_cap");
  static char ext[VERIF_SCAP + 1];
  char* heap = nullptr;
  if (type >= T_LARGE) {
    if (cap > VERIF_SCAP || size > cap) { printf("inputs outside the replay bound\n"); return 2; }
    heap = type == T_LARGE ? (char*)malloc(cap + 1) : ext;
    s._large.type = type; s._large.size = size; s._large.capacity = cap; s._large.data = heap;
  } else {
    if (type > 30) return 2;
    s._small.type = type; size = type;
  }
  char* d = type >= T_LARGE ? heap : s._small.data;
  for (uint64_t i = 0; i <= size; i++) { d[i] = (char)IN(0, "g_old[%llu]", (unsigned long long)i); g_old[i] = d[i]; }
  d[size] = 0; g_old[size] = 0;
  g_old_type = type; g_old_size = size; g_old_cap = type >= T_LARGE ? cap : 30; g_old_data = d;
  uint32_t op = (uint32_t)IN(1, "op"); uint64_t req = IN(1, "size");
  if (req > (1ull << 24)) { printf("requested size too large to allocate natively; treating as out of replay range\n"); return 2; }
  char* ret = s.prepare(String::ModifyOp(op), (size_t)req);
  int bad = 0;
  for (g_i = 0; g_i <= size && !bad; g_i++) { int c = c_prepare_post(&s, op, req, ret); if (c) { printf("VIOLATED clause %d at byte %zu: prepare(op=%u, size=%llu) on a %s string of %llu chars -> size=%llu cap=%llu\n", c, g_i, op, (unsigned long long)req, type >= T_LARGE ? "heap/external" : "embedded", (unsigned long long)size, (unsigned long long)c_str_size(&s), (unsigned long long)c_str_cap(&s)); bad = 1; } }
  if (!bad) printf("prepare(op=%u, size=%llu) on %llu chars: postcondition holds\n", op, (unsigned long long)req, (unsigned long long)size);
  if (s._type == T_EXTERNAL) { s._type = 0; }   /* do not let the destructor free the static buffer */
  return bad;
}
