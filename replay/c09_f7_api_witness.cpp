#include <asmjit/core/jitallocator.cpp>
#include <cstdio>
using namespace asmjit;
static void dump(JitAllocator& a, const char* t) {
  JitAllocatorPrivateImpl* impl = static_cast<JitAllocatorPrivateImpl*>(a._impl);
  JitAllocatorPool* pool = &impl->pools[0];
  for (JitAllocatorBlock* b = pool->blocks.first(); b; b = b->next())
    printf("%s: block area=%u used=%u flags=0x%x search=[%u,%u) lua=%u\n", t, b->_area_size, b->_area_used, b->_flags, b->_search_start, b->_search_end, b->_largest_unused_area);
}
int main() {
  JitAllocator::CreateParams p{}; p.block_size = 65536; p.granularity = 64;
  JitAllocator a(&p);
  JitAllocator::Span A, B, C, D, E;
  a.alloc(Out(A), 1023 * 64); a.alloc(Out(B), 1024 * 64); dump(a, "full");
  a.release(B.rx()); dump(a, "rel B");
  a.alloc(Out(C), 376 * 64); dump(a, "alloc C");
  a.release(A.rx()); dump(a, "rel A");
  a.alloc(Out(D), 648 * 64); dump(a, "alloc D");
  a.alloc(Out(E), 648 * 64); dump(a, "alloc E");
  printf("blocks=%zu\n", a.statistics().block_count());
}
