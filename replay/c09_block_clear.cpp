#define REPLAY_FN 3
#include "replay/c09_block.cpp"
