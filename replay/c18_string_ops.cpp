// Native replay for the String operations built on prepare(): rebuilds the counterexample's string (embedded or heap) in a real
// asmjit::String, applies the operation of the unit (VERIF_STROP) with the counterexample's arguments and compares the result
// with the textbook string (std::string).
#include "replay/common.h"
#include <asmjit/core/string.h>
#include <string>
using namespace asmjit;
#ifndef VERIF_STROP
#define VERIF_STROP 1
#endif
int main(int argc, char** argv) {
  replay_load(argc, argv);
  uint64_t old_size = IN(0, "g_old_size"); unsigned type = (unsigned)IN(0, "g_old_type");
  if (old_size > 64) return 2;
  std::string old; for (uint64_t i = 0; i < old_size; i++) { char ch = (char)IN('a', "g_old[%llu]", (unsigned long long)i); old.push_back(ch ? ch : '?'); }
  String s;
  if (type >= 0x1F) { if (s.assign(std::string(40, 'x').c_str()) != Error::kOk) return 2; }   // force a heap buffer first
  if (s.assign(old.data(), old.size()) != Error::kOk) return 2;
  char src[64]; unsigned nsrc = 0;
  for (unsigned i = 0; i < 16; i++) { src[i] = (char)IN(0, "g_src[%u]", i); }
  uint32_t op = (uint32_t)IN(0, "op"); uint64_t size = IN(0, "size"), n = IN(0, "n"); char c = (char)IN('c', "c");
  std::string want; Error err = Error::kOk; const char* what = "";
  switch (VERIF_STROP) {
    case 1: { src[15] = 0; uint64_t len = size == ~0ull ? strlen(src) : size; if (len > 16) return 2;
              err = s._op_string(String::ModifyOp(op), src, (size_t)size); want = (op ? old : std::string()) + std::string(src, len); what = "_op_string"; break; }
    case 2: { if (n > 64) return 2; err = s._op_chars(String::ModifyOp(op), c, (size_t)n); want = (op ? old : std::string()) + std::string(n, c); what = "_op_chars"; break; }
    case 3: { err = s._op_char(String::ModifyOp(op), c); want = (op ? old : std::string()) + std::string(1, c); what = "_op_char"; break; }
    case 4: { uint64_t ns = IN(0, "new_size"); err = s.truncate((size_t)ns); want = old.substr(0, ns < old.size() ? ns : old.size()); what = "truncate"; break; }
    case 5: { uint64_t len = IN(0, "span._size"); if (len > 16) return 2; err = s.assign(Span<const char>(src, (size_t)len)); want = std::string(src, len); what = "assign(Span)"; break; }
    case 6: { if (n > old.size() + 64) return 2; err = s.pad_end((size_t)n, c); want = old; if (n > old.size()) want.append(n - old.size(), c); what = "pad_end"; break; }
    default: return 2;
  }
  if (err != Error::kOk) { printf("%s failed with %u (allocation): nothing to compare\n", what, (unsigned)err); return 0; }
  std::string got(s.data(), s.size());
  if (got != want || s.data()[s.size()] != 0) {
    printf("VIOLATED: %s(op=%u) on \"%s\" gives \"%s\" (size %zu), the textbook result is \"%s\" (size %zu)\n", what, op, old.c_str(), got.c_str(), got.size(), want.c_str(), want.size());
    return 1;
  }
  printf("%s(op=%u): result \"%s\" as expected\n", what, op, got.c_str());
  return 0;
}
