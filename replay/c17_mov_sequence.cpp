// Native replay for a64 encode_mov_sequence_32/64 (file-local in a64assembler.cpp: included as a unity TU).
#include "replay/common.h"
#include <asmjit/arm/a64assembler.cpp>
#include "spec/arm.h"
using namespace asmjit;
int main(int argc, char** argv) {
  replay_load(argc, argv);
  uint64_t imm = IN(0, "imm"); uint32_t rd = (uint32_t)IN(1, "rd"), x = (uint32_t)IN(1, "x");
  if (rd > 31 || x > 1) { printf("inputs outside the precondition\n"); return 2; }
  uint32_t out[4] = {0, 0, 0, 0};
#ifdef REPLAY_MOV32
  uint32_t n = a64::encode_mov_sequence_32(out, (uint32_t)imm, rd, x); imm = (uint32_t)imm;
#else
  if (!x && imm > 0xFFFFFFFFu) { printf("inputs outside the precondition\n"); return 2; }
  uint32_t n = a64::encode_mov_sequence_64(out, imm, rd, x);
#endif
  uint64_t got = 0; bool ok = n >= 1 && n <= 4 && spec_exec_mov_wide(out, n, rd, x, &got);
  printf("encode_mov_sequence(imm=0x%llx rd=%u x=%u) -> %u words [%08x %08x %08x %08x]; executing them yields %s0x%llx\n", (unsigned long long)imm, rd, x, n, out[0], out[1], out[2], out[3], ok ? "" : "(not a valid MOVZ/MOVN/MOVK sequence) ", (unsigned long long)got);
  if (!ok || got != imm) { printf("VIOLATED: the sequence does not materialise the immediate\n"); return 1; }
  return 0;
}
