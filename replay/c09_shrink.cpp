// Native replay for JitAllocatorImpl_shrink through the public API: an allocator with the counterexample's granularity, a live
// span of the counterexample's size (g_ae - g_as granules) between two neighbours, then shrink(span, new_size). Checked: a size
// larger than what the span holds is rejected with kInvalidArgument and changes nothing; otherwise the span keeps >= new_size
// bytes; afterwards every new allocation is disjoint from the spans that are still live.
#include "replay/common.h"
#include <asmjit/core/jitallocator.h>
#include <vector>
using namespace asmjit;
// second scenario: the same shrink in an allocator with several pools (base granularity 64, the span lives in the pool of the
// counterexample's granularity) and pattern filling: neighbours keep their contents, the part given back carries the pattern
static int multi_pool_scenario(uint32_t gran, uint32_t granules, uint64_t new_size) {
  if (gran == 64 || new_size == 0 || new_size > (uint64_t)granules * gran) return 0;
  JitAllocator::CreateParams params; params.granularity = 64; params.fill_pattern = 0xC3C3C3C3u;
  params.options = JitAllocatorOptions::kUseMultiplePools | JitAllocatorOptions::kFillUnusedMemory | JitAllocatorOptions::kCustomFillPattern;
  JitAllocator alloc(&params);
  JitAllocator::Span a, b, c;
  size_t bytes = (size_t)granules * gran;
  if (alloc.alloc(Out(a), gran) != Error::kOk || alloc.alloc(Out(b), bytes) != Error::kOk || alloc.alloc(Out(c), gran) != Error::kOk) return 0;
  std::vector<uint8_t> va(gran, 0x11), vb(bytes, 0x22), vc(gran, 0x33);
  if (alloc.write(a, 0, va.data(), va.size()) != Error::kOk || alloc.write(b, 0, vb.data(), vb.size()) != Error::kOk || alloc.write(c, 0, vc.data(), vc.size()) != Error::kOk) return 0;
  if (alloc.shrink(b, (size_t)new_size) != Error::kOk) return 0;
  const uint8_t* pa = (const uint8_t*)a.rx(); const uint8_t* pb = (const uint8_t*)b.rx(); const uint8_t* pc = (const uint8_t*)c.rx();
  for (size_t i = 0; i < gran; i++) if (pa[i] != 0x11 || pc[i] != 0x33) { printf("VIOLATED: shrink of a %zu-byte span (pool granularity %u) to %llu changed byte %zu of a neighbouring live span\n", bytes, gran, (unsigned long long)new_size, i); return 1; }
  for (size_t i = 0; i < b.size(); i++) if (pb[i] != 0x22) { printf("VIOLATED: shrink changed byte %zu of the part of the span that is kept (%zu bytes)\n", i, b.size()); return 1; }
  for (size_t i = b.size(); i < bytes; i++) if (pb[i] != 0xC3) { printf("VIOLATED: byte %zu of the part given back does not carry the fill pattern (0x%02x)\n", i, pb[i]); return 1; }
  return 0;
}
int main(int argc, char** argv) {
  replay_load(argc, argv);
  uint32_t gran = (uint32_t)IN(64, "g_p0.granularity"); uint64_t new_size = IN(1, "new_size");
  uint32_t granules = (uint32_t)(IN(1, "g_ae") - IN(0, "g_as")); if (granules < 1 || granules > 128) return 2;
  if (multi_pool_scenario(gran, granules, new_size)) return 1;
  JitAllocator::CreateParams params; params.granularity = gran;
  JitAllocator alloc(&params);
  JitAllocator::Span a, b, c;
  if (alloc.alloc(Out(a), gran) != Error::kOk || alloc.alloc(Out(b), (size_t)granules * gran) != Error::kOk || alloc.alloc(Out(c), gran) != Error::kOk) return 2;
  uint64_t prev = b.size(); void* rx = b.rx();
  Error err = alloc.shrink(b, (size_t)new_size);
  int bad = 0;
  if (new_size > prev) {
    if (err != Error::kInvalidArgument) { printf("VIOLATED: shrink(span of %llu bytes, new_size=%llu) returned %u instead of kInvalidArgument; span now reports %llu bytes\n", (unsigned long long)prev, (unsigned long long)new_size, (unsigned)err, (unsigned long long)b.size()); bad = 1; }
  } else if (new_size != 0) {
    if (err != Error::kOk || b.size() < new_size || b.rx() != rx) { printf("VIOLATED: shrink to %llu failed or lost bytes: err=%u size=%llu\n", (unsigned long long)new_size, (unsigned)err, (unsigned long long)b.size()); bad = 1; }
  }
  // whatever happened, what the caller still holds must stay disjoint from new allocations
  if (err == Error::kOk && new_size != 0) {
    uint8_t* lo = (uint8_t*)rx; uint8_t* hi = lo + (new_size > prev ? prev : (b.size() ? b.size() : prev));
    for (int i = 0; i < 64 && !bad; i++) {
      JitAllocator::Span n; if (alloc.alloc(Out(n), gran) != Error::kOk) break;
      uint8_t* p = (uint8_t*)n.rx();
      if (p < hi && p + n.size() > lo) { printf("VIOLATED: after shrink(new_size=%llu) -> kOk a new allocation [%p,+%llu) overlaps the span the caller still holds [%p,+%llu)\n", (unsigned long long)new_size, (void*)p, (unsigned long long)n.size(), (void*)lo, (unsigned long long)(hi - lo)); bad = 1; }
    }
  }
  if (!bad) printf("shrink(%llu of %llu bytes, granularity %u) -> err=%u size=%llu: as specified\n", (unsigned long long)new_size, (unsigned long long)prev, gran, (unsigned)err, (unsigned long long)b.size());
  return bad;
}
