// Native replay for ConstPool::add: rebuilds the counterexample's pool (size, alignment, registered gaps, spare record) in a real
// asmjit::ConstPool, realises the verifier's choices for the assumed callees - which allocation calls fail (g_fail_mask), which
// lookups hit (g_hit_mask) - and evaluates the contract's postcondition (compiled as C++ over the real members).
// Arena::_alloc_oneshot is interposed (the arena is kept exhausted so that every request reaches it): call j fails iff bit j.
// REPLAY_NO_ASAN
#include "replay/common.h"
#include <asmjit/core/constpool.h>
using namespace asmjit;
#define VERIF_NATIVE_REPLAY 1
#define HAVE_STRUCT_ConstPool 1
#define HAVE_STRUCT_ConstPool_Gap 1
#define HAVE_STRUCT_ConstPool_Node 1
#define ConstPool_Gap ConstPool::Gap
static struct { struct { uint32_t _offset; } n; } g_hitobj;
#include "contracts/c19_constpool.h"
static bool g_intercept = false;
ASMJIT_BEGIN_NAMESPACE
void* Arena::_alloc_oneshot(size_t size) noexcept {
  if (g_intercept) { unsigned j = g_alloc_calls++; if (j >= 64 || ((g_fail_mask >> j) & 1)) return nullptr; }
  return calloc(1, size + 64);     // leaked on purpose; _ptr/_end stay untouched, so the arena stays "exhausted"
}
ASMJIT_END_NAMESPACE
int main(int argc, char** argv) {
  replay_load(argc, argv);
  Arena arena(1024);
  ConstPool pool(arena);
  uint64_t size = IN(8, "g_req_size");
  g_size0 = IN(0, "g_size0"); g_align0 = IN(0, "g_align0"); g_fail_mask = IN(0, "g_fail_mask"); g_hit_mask = IN(0, "g_hit_mask");
  g_req_size = size;
  pool._size = g_size0; pool._alignment = g_align0;
  for (unsigned i = 0; i < NCLS; i++) {
    g_n[i] = (uint8_t)IN(0, "g_n[%u]", i); if (g_n[i] > NPER) return 2;
    ConstPool::Gap* prev = nullptr;
    for (unsigned k = 0; k < g_n[i]; k++) {
      ConstPool::Gap* g = (ConstPool::Gap*)calloc(1, sizeof(ConstPool::Gap));
      g->_offset = g_goff[i][k] = IN(0, "g_goff[%u][%u]", i, k); g->_size = size_t(1) << i; g->_next = nullptr;
      if (prev) prev->_next = g; else pool._gaps[i] = g;
      prev = g;
    }
    g_head0[i] = pool._gaps[i];
  }
  if (IN(0, "g_has_spare")) { pool._gap_pool = (ConstPool::Gap*)calloc(1, sizeof(ConstPool::Gap)); }
  uint8_t data[64]; for (unsigned i = 0; i < 64; i++) data[i] = (uint8_t)(i + 1);   // distinct chunks: lookups hit only where asked
  bool valid = size >= 1 && size <= 64 && (size & (size - 1)) == 0;
  g_hitobj.n._offset = (uint32_t)IN(0, "g_hitobj.n._offset");
  if (valid) {
    // lookups, in call order: 0 = the constant itself; then for each halving level (while the piece is > 4 bytes) its pieces in order
    unsigned cls = 0; while ((size_t(1) << cls) != size) cls++;
    unsigned c = 0;
    if (g_hit_mask & 1) pool._tree[cls].insert(ConstPool::Tree::new_node_t(arena, data, size, g_hitobj.n._offset, false));
    c = 1;
    for (uint64_t piece = size / 2, t = cls - 1; piece >= 4 && size > 4; piece /= 2, t--) {
      if (piece * 2 <= 4) break;
      for (uint64_t i = 0; i < size / piece; i++, c++)
        if (c < 64 && ((g_hit_mask >> c) & 1)) pool._tree[t].insert(ConstPool::Tree::new_node_t(arena, data + i * piece, piece, 0, true));
    }
  }
  size_t off = ~size_t(0);
  printf("add(size=%llu) on pool{size=%llu, alignment=%llu} fail_mask=0x%llx hit_mask=0x%llx\n", (unsigned long long)size, (unsigned long long)g_size0, (unsigned long long)g_align0, (unsigned long long)g_fail_mask, (unsigned long long)g_hit_mask); fflush(stdout);
  g_alloc_calls = 0; g_intercept = true;
  Error err = pool.add(data, (size_t)size, Out(off));
  g_intercept = false;
  int c = c_add_post(&pool, size, off, (uint32_t)err);
  if (c) { printf("VIOLATED clause %d: err=%u offset=%llu pool size %llu -> %llu\n", c, (unsigned)err, (unsigned long long)off, (unsigned long long)g_size0, (unsigned long long)pool._size); return 1; }
  printf("err=%u offset=%llu: postcondition holds\n", (unsigned)err, (unsigned long long)off);
  return 0;
}
