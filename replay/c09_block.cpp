// Native replay for JitAllocatorBlock::mark_released_area / mark_shrunk_area / clear_block on the real (file-local) class:
// jitallocator.cpp is included as a unity TU; the contract's C predicates are compiled as C++ against the real members.
#define REPLAY_NO_ASSERTION_FAILURE_DEF 1
#include "replay/common.h"
#include <asmjit/core/jitallocator.cpp>
using namespace asmjit;
#define HAVE_STRUCT_JitAllocatorBlock 1
#define __CPROVER_havoc_object(x) ((void)0)
#ifndef VERIF_W
#define VERIF_W 4
#endif
#include "contracts/c09_block.h"
#ifndef REPLAY_FN
#define REPLAY_FN 1   /* 1 = mark_released_area, 2 = mark_shrunk_area, 3 = clear_block */
#endif
int main(int argc, char** argv) {
  replay_load(argc, argv);
  static Support::BitWord used[VERIF_W], stop[VERIF_W];
  JitAllocatorPool pool(64);
  uint32_t flags = (uint32_t)IN(0, "g_b0._flags"), n = (uint32_t)IN(64, "g_b0._area_size");
  if (n < 2 || n > VERIF_W * 64) { printf("area size outside the replay bound\n"); return 2; }
  JitAllocatorBlock block(&pool, VirtMem::DualMapping{}, size_t(n) * 64, flags, used, stop, n);
  block._flags = flags; block._area_used = (uint32_t)IN(0, "g_b0._area_used");
  block._largest_unused_area = (uint32_t)IN(0, "g_b0._largest_unused_area");
  block._search_start = (uint32_t)IN(0, "g_b0._search_start"); block._search_end = (uint32_t)IN(0, "g_b0._search_end");
  for (unsigned i = 0; i < VERIF_W; i++) { used[i] = IN(0, "g_used0[%u]", i); stop[i] = IN(0, "g_stop0[%u]", i); g_used0[i] = used[i]; g_stop0[i] = stop[i]; }
  pool.total_area_used[0] = IN(0, "g_p0.total_area_used[0]"); pool.total_area_used[1] = IN(0, "g_p0.total_area_used[1]");
  g_ra = (uint32_t)IN(0, "g_ra"); g_rb = (uint32_t)IN(0, "g_rb");
  uint32_t s, e;
  int pre = 0;
#if REPLAY_FN == 1
  s = (uint32_t)IN(0, "released_area_start"); e = (uint32_t)IN(0, "released_area_end");
  pre = c_wf_code(&block); if (pre || !c_live_run(&block, s, e)) { printf("inputs do not satisfy the precondition (wf code %d)\n", pre); return 2; }
  printf("mark_released_area(%u, %u) on block: area_size=%u used=%u flags=0x%x search=[%u,%u) largest=%u\n", s, e, n, block._area_used, flags, block._search_start, block._search_end, block._largest_unused_area);
  block.mark_released_area(s, e);
#elif REPLAY_FN == 2
  s = (uint32_t)IN(0, "shrunk_area_start"); e = (uint32_t)IN(0, "shrunk_area_end");
  pre = c_wf_code(&block); if (pre || !c_live_tail(&block, s, e)) { printf("inputs do not satisfy the precondition (wf code %d)\n", pre); return 2; }
  printf("mark_shrunk_area(%u, %u) on block: area_size=%u used=%u flags=0x%x search=[%u,%u) largest=%u\n", s, e, n, block._area_used, flags, block._search_start, block._search_end, block._largest_unused_area);
  block.mark_shrunk_area(s, e);
#else
  block.clear_block();
#endif
  int code = c_wf_code(&block);
  printf("after: used=%u flags=0x%x search=[%u,%u) largest=%u -> wf_block clause violated: %d (0 = well-formed; 5 = Empty flag wrong, 6/13 = free granules outside the search window, 7 = incremental cache wrong, 8 = largest_unused_area too small)\n",
         block._area_used, block._flags, block._search_start, block._search_end, block._largest_unused_area, code);
  if (code) printf("VIOLATED: representation invariant of JitAllocatorBlock\n");
  return code ? 1 : 0;
}
