// Native replay for the ArenaVectorBase growth functions: rebuilds the counterexample's vector (size, capacity, contents) on a
// real Arena, calls the real function and checks the observable clauses of the contract: Ok => capacity >= wanted, size as
// specified, old elements kept, new elements zero; failure => vector untouched.
// REPLAY_NO_ASAN  (requests of several GiB must be allowed to succeed the way they do in a normal process)
#include "replay/common.h"
#include <asmjit/support/arena.h>
#include <asmjit/support/arenavector.h>
#include <sys/mman.h>
using namespace asmjit;
// Requests of many GiB succeed in a real process whenever address space is available (lazy commit); to make the replay
// independent of the sandbox's overcommit policy they are served by an untouched MAP_NORESERVE mapping.
extern "C" void* __libc_malloc(size_t); extern "C" void __libc_free(void*);
static void* g_big[8]; static size_t g_bigsz[8];
extern "C" void* malloc(size_t n) {
  if (n < (size_t(1) << 30)) return __libc_malloc(n);
  void* p = mmap(nullptr, n, PROT_READ | PROT_WRITE, MAP_PRIVATE | MAP_ANONYMOUS | MAP_NORESERVE, -1, 0);
  if (p == MAP_FAILED) return nullptr;
  for (int i = 0; i < 8; i++) if (!g_big[i]) { g_big[i] = p; g_bigsz[i] = n; break; }
  return p;
}
extern "C" void free(void* p) {
  for (int i = 0; i < 8; i++) if (p && g_big[i] == p) { munmap(p, g_bigsz[i]); g_big[i] = nullptr; return; }
  __libc_free(p);
}
#ifndef VERIF_VECOP
#define VERIF_VECOP 2
#endif
struct V : ArenaVectorBase {
  V() {}
#ifdef VERIF_ITEM_POW2
  typedef ItemSize<true> IS;
#else
  typedef ItemSize<false> IS;
#endif
  Error call(Arena& a, size_t n, uint32_t isz) {
    IS is{isz};
    switch (VERIF_VECOP) {
      case 1: return _reserve_fit(a, n, is);
      case 2: return _reserve_grow(a, n, is);
      case 3: return _reserve_additional(a, n, is);
      case 4: return _resize_fit(a, n, is);
      default: return _resize_grow(a, n, is);
    }
  }
};
int main(int argc, char** argv) {
  replay_load(argc, argv);
  Arena arena(4096);
  // recycled blocks are not zero: put three blocks of every slot class, filled with 0xA5, on the arena's free lists first
  { void* blk[24]; size_t sz[24]; for (int i = 0; i < 24; i++) { sz[i] = size_t(16) << (i % 8); blk[i] = arena.alloc_reusable<void>(sz[i]); if (blk[i]) memset(blk[i], 0xA5, sz[i]); }
    for (int i = 0; i < 24; i++) if (blk[i]) arena.free_reusable(blk[i], sz[i]); }   // three per class
  V v;
  uint32_t isz = (uint32_t)IN(0, "item_size.n");
  uint64_t n = IN(1, "n"), size0 = IN(0, "g_vsize0"), cap0 = IN(0, "g_vcap0");
#ifdef VERIF_ITEM_POW2
  if (isz > 6) return 2;
  uint64_t item = 1ull << isz;
#else
  uint64_t item = isz;
  if (item == 0) return 2;
#endif
  if (cap0 * item > 4096 || size0 > cap0) return 2;
  static uint8_t old[4096];
  if (cap0) {
    v._data = arena.alloc_reusable<void>(cap0 * item); v._size = (uint32_t)size0; v._capacity = (uint32_t)cap0;
    for (uint64_t i = 0; i < cap0 * item; i++) ((uint8_t*)v._data)[i] = old[i] = (uint8_t)IN(0, "g_vold[%llu]", (unsigned long long)i);
  }
  void* data0 = v._data;
  Error err = v.call(arena, (size_t)n, isz);
  bool resize = VERIF_VECOP >= 4;
  uint64_t want = VERIF_VECOP == 3 ? size0 + n : n;
  int bad = 0;
  if (err == Error::kOk) {
    if ((uint64_t)v._capacity < want) { printf("VIOLATED: returned kOk but capacity %u < %llu items wanted (item %llu bytes; size %u)\n", v._capacity, (unsigned long long)want, (unsigned long long)item, v._size); bad = 1; }
    if (!resize && v._size != size0) { printf("VIOLATED: size changed %llu -> %u\n", (unsigned long long)size0, v._size); bad = 1; }
    if (resize && v._size != n) { printf("VIOLATED: resize(%llu) left size %u\n", (unsigned long long)n, v._size); bad = 1; }
    if (!bad) {
      uint64_t keep = (resize && n < size0 ? n : size0) * item;
      for (uint64_t i = 0; i < keep; i++) if (((uint8_t*)v._data)[i] != old[i]) { printf("VIOLATED: byte %llu of the kept elements changed\n", (unsigned long long)i); bad = 1; break; }
      if (resize && n > size0 && n * item <= (1u << 20)) for (uint64_t i = size0 * item; i < n * item; i++) if (((uint8_t*)v._data)[i] != 0) { printf("VIOLATED: new element byte %llu is not zero\n", (unsigned long long)i); bad = 1; break; }
    }
  } else {
    if (v._data != data0 || v._size != size0 || v._capacity != cap0) { printf("VIOLATED: failure (%u) changed the vector\n", (unsigned)err); bad = 1; }
    if (cap0 >= want && !(VERIF_VECOP == 3 && n > ~0ull - size0)) { printf("VIOLATED: spurious failure (%u): capacity %llu already >= %llu\n", (unsigned)err, (unsigned long long)cap0, (unsigned long long)want); bad = 1; }
  }
  if (!bad) printf("op %d n=%llu item=%llu: err=%u size=%u capacity=%u - contract clauses hold\n", VERIF_VECOP, (unsigned long long)n, (unsigned long long)item, (unsigned)err, v._size, v._capacity);
  return bad;
}
