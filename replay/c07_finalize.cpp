// Native replay for FuncFrame::finalize: the contract's own C predicates (contracts/c07_frame.h) are compiled as C++ against the
// real asmjit::FuncFrame / ArchTraits (same member names; layouts are static-asserted equal by the lowering).
#include "replay/common.h"
#include <asmjit/core/archtraits.h>
using namespace asmjit;
#define HAVE_STRUCT_FuncFrame 1
#define g_arch_traits asmjit::_arch_traits
#define __CPROVER_havoc_object(x) ((void)0)
#include "contracts/c07_frame.h"
#define F8(name) f.name = (uint8_t)IN(0, "g_f0." #name)
#define F16(name) f.name = (uint16_t)IN(0, "g_f0." #name)
#define F32(name) f.name = (uint32_t)IN(0, "g_f0." #name)
int main(int argc, char** argv) {
  replay_load(argc, argv);
  FuncFrame f; memset((void*)&f, 0, sizeof f);
  f._attributes = FuncAttributes(IN(0, "g_f0._attributes"));
  f._arch = Arch(IN(0, "g_f0._arch"));
  F8(_sp_reg_id); F8(_sa_reg_id); F8(_red_zone_size); F8(_spill_zone_size); F8(_natural_stack_alignment); F8(_min_dynamic_alignment);
  F8(_call_stack_alignment); F8(_local_stack_alignment); F8(_final_stack_alignment); F16(_callee_stack_cleanup);
  F32(_call_stack_size); F32(_local_stack_size); F32(_final_stack_size); F32(_local_stack_offset); F32(_da_offset);
  F32(_sa_offset_from_sp); F32(_sa_offset_from_sa); F32(_stack_adjustment); F16(_push_pop_save_size); F16(_extra_reg_save_size);
  F32(_push_pop_save_offset); F32(_extra_reg_save_offset);
  for (int g = 0; g < 4; g++) {
    f._dirty_regs._data[g] = (uint32_t)IN(0, "g_f0._dirty_regs._data[%d]", g);
    f._preserved_regs._data[g] = (uint32_t)IN(0, "g_f0._preserved_regs._data[%d]", g);
    f._unavailable_regs._data[g] = (uint32_t)IN(0, "g_f0._unavailable_regs._data[%d]", g);
    f._save_restore_reg_size._data[g] = (uint8_t)IN(0, "g_f0._save_restore_reg_size._data[%d]", g);
    f._save_restore_alignment._data[g] = (uint8_t)IN(0, "g_f0._save_restore_alignment._data[%d]", g);
  }
  if (!c_frame_pre(&f)) { printf("inputs do not satisfy the precondition\n"); return 2; }
  FuncFrame o; memcpy((void*)&o, (void*)&f, sizeof f);
  Error e = f.finalize();
  bool f2 = c_F2(&f), f3 = c_F3(&f), f4 = c_F4(&f), f5 = c_F5(&f), f6 = c_F6(&f), f7 = c_F7(&f), regs = c_frame_regs_ok(&f), fr = c_frame_frame(&f, &o);
  printf("finalize() -> %u; F2 save areas=%d F3 disjoint/ordered=%d F4 local aligned=%d F5 vec aligned=%d F6 sp aligned=%d F7 adjust/sa=%d regs=%d frame=%d\n",
         unsigned(e), f2, f3, f4, f5, f6, f7, regs, fr);
  printf("  arch=%u A=%u call=[0,%u) local=[%u,+%u) extra=[%u,+%u) da=%u pushpop=[%u,+%u) final=%u adj=%u sa_sp=%u sa_sa=%u\n", unsigned(f._arch), f._final_stack_alignment,
         f._call_stack_size, f._local_stack_offset, f._local_stack_size, f._extra_reg_save_offset, f._extra_reg_save_size, f._da_offset,
         f._push_pop_save_offset, f._push_pop_save_size, f._final_stack_size, f._stack_adjustment, f._sa_offset_from_sp, f._sa_offset_from_sa);
  bool ok = e == Error::kOk && f2 && f3 && f4 && f5 && f6 && f7 && regs && fr;
  if (!ok) printf("VIOLATED: frame layout contract\n");
  return ok ? 0 : 1;
}
