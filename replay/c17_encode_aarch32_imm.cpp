// Native replay for arm::Utils::encode_aarch32_imm (built with UBSan: undefined shifts in the real code abort = reproduction).
#include "replay/common.h"
#include <asmjit/arm/armutils.h>
#include "spec/arm.h"
#ifndef IN_imm
#define IN_imm 0
#endif
using namespace asmjit;
int main() {
  uint64_t imm = IN_imm;
  uint32_t out = 0xDEADBEEF;
  bool r = arm::Utils::encode_aarch32_imm(imm, Out(out));
  bool want = spec_a32_imm_encodable(imm);
  printf("encode_aarch32_imm(0x%llx) -> %d out=0x%x; spec encodable=%d\n", (unsigned long long)imm, r, out, want);
  int bad = 0;
  if (r != want) { printf("VIOLATED: accepted != encodable\n"); bad = 1; }
  if (r && (out >= 4096 || spec_a32_expand_imm(out) != imm)) { printf("VIOLATED: imm12 expands to 0x%x\n", spec_a32_expand_imm(out)); bad = 1; }
  return bad;
}
