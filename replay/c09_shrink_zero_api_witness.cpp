#include <asmjit/core.h>
#include <cstdio>
using namespace asmjit;
int main() {
  JitAllocator alloc;
  JitAllocator::Span a, b, c, big, q;
  (void)alloc.alloc(Out(a), 64); (void)alloc.alloc(Out(b), 64); (void)alloc.alloc(Out(c), 64);
  (void)alloc.release(a.rx());                                  // the granule in front of b is free now
  Error e = alloc.write(b, [](JitAllocator::Span& s, void*) noexcept -> Error { s.shrink(0); return Error::kOk; }, nullptr);
  printf("write + Span::shrink(0): err=%u\n", (unsigned)e);
  (void)alloc.alloc(Out(big), 128);                             // takes the two granules a and b occupied
  (void)alloc.query(Out(q), big.rx());
  printf("alloc(128) -> %p (a was %p), query reports %zu bytes\n", big.rx(), a.rx(), q.size());
  return q.size() == 128 ? 0 : 1;
}
