// Native replay for the argument classification: the real FuncDetail::init (public entry, both steps) for the counterexample's
// signature against the ABI scan of spec/abi.h; the contract's C predicates are compiled as C++ against the real classes.
#include "replay/common.h"
using namespace asmjit;
#define HAVE_STRUCT_FuncDetail 1
#define HAVE_STRUCT_CallConv 1
#define HAVE_STRUCT_Environment 1
#define __CPROVER_havoc_object(x) ((void)0)
static unsigned nondet_unsigned() { return 0; }
#include "contracts/c06_abi.h"
int main(int argc, char** argv) {
  replay_load(argc, argv);
  int abi = VERIF_ABI;
  g_nargs = (uint8_t)IN(0, "g_nargs"); g_ret = (uint8_t)IN(0, "g_ret");
  for (unsigned i = 0; i < 32; i++) g_types[i] = (uint8_t)IN(0, "g_types[%u]", i);
  if (!c_types_ok(abi)) { printf("inputs outside the precondition\n"); return 2; }
  FuncSignature sig;
  sig._call_conv_id = abi == SPEC_ABI_SYSV64 ? CallConvId::kX64SystemV : abi == SPEC_ABI_WIN64 ? CallConvId::kX64Windows : CallConvId::kCDecl;
  sig._arg_count = g_nargs; sig._va_index = 255; sig._ret = TypeId(g_ret);
  for (unsigned i = 0; i < 32; i++) sig._args[i] = TypeId(g_types[i]);
  Environment env;
  env.init(abi <= 2 ? Arch::kX64 : Arch::kAArch64, SubArch::kUnknown, Vendor::kUnknown, abi == SPEC_ABI_WIN64 ? Platform::kWindows : abi == SPEC_ABI_APPLE64 ? Platform::kOSX : Platform::kLinux,
           abi == SPEC_ABI_WIN64 ? PlatformABI::kMSVC : abi == SPEC_ABI_APPLE64 ? PlatformABI::kDarwin : PlatformABI::kGNU);
  FuncDetail fd;
  Error e = fd.init(sig, env);
  int ccode = c_cc_code(&fd._call_conv, abi);
  printf("FuncDetail::init(abi=%d, %u args) -> %u; CallConv record check: %d\n", abi, g_nargs, unsigned(e), ccode);
  int bad = e != Error::kOk || ccode != 0;
  for (unsigned g = 0; g < g_nargs; g++) {
    g_arg = g;
    int c = c_arg_ok(&fd, abi);
    spec_args_result r = spec_arg_location(abi, g_types, g_nargs, g);
    uint32_t v = fd._args[g]._values[0]._data;
    if (c) {
      printf("VIOLATED arg %u (type %u): asmjit says %s %u%s, ABI says kind=%d reg=%u off=%u (code %d; stack area asmjit %u, ABI %u)\n", g, g_types[g],
             (v & FV_IS_REG) ? "reg" : "stack+", (v & FV_IS_REG) ? (v >> 16) & 0xFF : v >> 12, (v & FV_IS_INDIRECT) ? " (indirect)" : "", r.loc.kind, r.loc.reg, r.loc.offset, c, fd._arg_stack_size, r.stack_size);
      bad = 1;
    }
  }
  return bad;
}
