// Native replay for Arena::_alloc_oneshot: rebuilds the block chain of the counterexample (current block + followers) in a real
// asmjit::Arena, calls the real function and walks the chain afterwards. malloc/free are interposed (REPLAY_NO_ASAN) so that freed
// blocks are tracked and an allocation failure can be injected: the scenario is run once with malloc succeeding and once failing.
#include "replay/common.h"
#include <asmjit/support/arena.h>
#include <set>
using namespace asmjit;
extern "C" void* __libc_malloc(size_t); extern "C" void __libc_free(void*);
static bool g_track = false, g_fail_next = false; static void* g_freed[64]; static int g_nfreed = 0;
extern "C" void* malloc(size_t n) { if (g_track && g_fail_next) { g_fail_next = false; return nullptr; } return __libc_malloc(n); }
extern "C" void free(void* p) { if (g_track && p) { if (g_nfreed < 64) g_freed[g_nfreed++] = p; return; /* keep the memory: we only record */ } __libc_free(p); }
static bool was_freed(void* p) { for (int i = 0; i < g_nfreed; i++) if (g_freed[i] == p) return true; return false; }

static int scenario(size_t* sz, unsigned n, size_t req, unsigned shift, bool fail_malloc) {
  Arena arena(1024);
  Arena::ManagedBlock* b[3] = {nullptr, nullptr, nullptr};
  for (unsigned i = 0; i < n; i++) { b[i] = (Arena::ManagedBlock*)__libc_malloc(sizeof(Arena::ManagedBlock) + sz[i]); b[i]->size = sz[i]; b[i]->next = nullptr; }
  for (unsigned i = 0; i + 1 < n; i++) b[i]->next = b[i + 1];
  arena._first_block = b[0]; arena._current_block = b[0];
  arena._ptr = (uint8_t*)b[0] + sizeof(Arena::ManagedBlock) + (sz[0] / 8) * 8;   // current block exhausted: the slow path is taken
  arena._end = b[0]->data() + sz[0];
  arena._current_block_size_shift = (uint8_t)shift; arena._min_block_size_shift = 10; arena._max_block_size_shift = 26;
  g_nfreed = 0; g_track = true; g_fail_next = fail_malloc;
  void* p = arena._alloc_oneshot(req);
  g_fail_next = false;
  printf("  [%s] _alloc_oneshot(%zu) -> %p, %d block(s) freed; chain from the first block:\n", fail_malloc ? "malloc fails" : "malloc ok", req, p, g_nfreed);
  int bad = 0; unsigned steps = 0; bool seen = false;
  for (Arena::ManagedBlock* it = arena._first_block; it && steps < 8; steps++) {
    bool fr = was_freed(it);
    printf("    block %p%s%s\n", (void*)it, it == arena._current_block ? " (current)" : "", fr ? "  <-- FREED block still linked" : "");
    if (fr) { bad = 1; break; }
    if (it == arena._current_block) seen = true;
    it = it->next;
  }
  if (!bad && !seen) { printf("    the current block is not reachable from the first block\n"); bad = 1; }
  g_track = false;
  arena._first_block = arena._current_block = const_cast<Arena::ManagedBlock*>(b[0]); b[0]->next = nullptr;   // let the destructor free only b[0]
  return bad;
}
int main(int argc, char** argv) {
  replay_load(argc, argv);
  size_t sz[3] = { (size_t)IN(64, "g_sz[0]"), (size_t)IN(0, "g_sz[1]"), (size_t)IN(0, "g_sz[2]") };
  bool has1 = IN(0, "g_has1") != 0, has2 = IN(0, "g_has2") != 0;
  size_t req = (size_t)IN(8, "size"); unsigned shift = (unsigned)IN(10, "self@._current_block_size_shift");
  if (shift < 10 || shift > 26 || req % 8 || req > (1u << 20)) { printf("inputs outside the replay range\n"); return 2; }
  unsigned n = 1 + (has1 ? 1 : 0) + (has1 && has2 ? 1 : 0);
  printf("chain: %u blocks (payloads %zu %zu %zu), request %zu bytes\n", n, sz[0], sz[1], sz[2], req);
  int bad = scenario(sz, n, req, shift, false) | scenario(sz, n, req, shift, true);
  if (bad) printf("VIOLATED: the block chain contains a link to a freed block (use-after-free / double free on the next reset)\n");
  return bad;
}
