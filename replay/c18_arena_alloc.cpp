// Native replay for Arena::_alloc_oneshot: rebuilds the block chain of the counterexample (current block + followers) in a real
// asmjit::Arena, calls the real function and walks the chain afterwards. Built with AddressSanitizer: a link to a freed block
// is a heap-use-after-free report (non-zero exit = reproduced).
#include "replay/common.h"
#include <asmjit/support/arena.h>
using namespace asmjit;
int main(int argc, char** argv) {
  replay_load(argc, argv);
  size_t sz[3] = { (size_t)IN(64, "g_sz[0]"), (size_t)IN(0, "g_sz[1]"), (size_t)IN(0, "g_sz[2]") };
  bool has1 = IN(0, "g_has1") != 0, has2 = IN(0, "g_has2") != 0;
  size_t req = (size_t)IN(8, "size");
  unsigned shift = (unsigned)IN(10, "self@._current_block_size_shift");
  if (shift < 10 || shift > 26 || req % 8 || req > (1u << 20)) { printf("inputs outside the replay range\n"); return 2; }
  Arena arena(1024);
  Arena::ManagedBlock* b[3] = {nullptr, nullptr, nullptr};
  unsigned n = 1 + (has1 ? 1 : 0) + (has1 && has2 ? 1 : 0);
  for (unsigned i = 0; i < n; i++) { b[i] = (Arena::ManagedBlock*)malloc(sizeof(Arena::ManagedBlock) + sz[i]); b[i]->size = sz[i]; b[i]->next = nullptr; }
  for (unsigned i = 0; i + 1 < n; i++) b[i]->next = b[i + 1];
  arena._first_block = b[0]; arena._current_block = b[0];
  size_t poff = (size_t)IN(sizeof(Arena::ManagedBlock), "ptr_offset");
  arena._ptr = (uint8_t*)b[0] + sizeof(Arena::ManagedBlock) + (sz[0] / 8) * 8;   // block exhausted: the slow path is taken
  arena._end = b[0]->data() + sz[0];
  arena._current_block_size_shift = (uint8_t)shift; arena._min_block_size_shift = 10; arena._max_block_size_shift = 26;
  printf("chain: %u blocks (payloads %zu %zu %zu), request %zu bytes\n", n, sz[0], sz[1], sz[2], req);
  void* p = arena._alloc_oneshot(req);
  printf("_alloc_oneshot -> %p; walking the chain from the first block:\n", p);
  unsigned steps = 0; bool seen = false;
  for (Arena::ManagedBlock* it = arena._first_block; it && steps < 8; it = it->next, steps++) {   // ASan reports here if a link dangles
    printf("  block %p size %zu%s\n", (void*)it, it->size, it == arena._current_block ? " (current)" : "");
    if (it == arena._current_block) seen = true;
  }
  if (!seen) { printf("VIOLATED: the current block is not reachable from the first block\n"); return 1; }
  return 0;
}
