#define REPLAY_FLATTEN 1
#include "replay/c10_layout.cpp"
