// Instantiation driver: unity TU so that tables defined in other .cpp files (ArchTraits) are visible to the lowering.
#include <asmjit/core/archtraits.cpp>
#include <asmjit/core/func.cpp>
