// Instantiation driver for C06: FuncDetail::init with both backends and the tables they read, as one TU.
#include <asmjit/core/archtraits.cpp>
#include <asmjit/core/type.cpp>
#include <asmjit/core/func.cpp>
#include <asmjit/x86/x86func.cpp>
#include <asmjit/arm/a64func.cpp>
